#!/bin/sh
# builds the checker from the sources in /verif/checker, offline
cd "$(dirname "$0")/checker" || exit 2
export GOFLAGS=-mod=mod GOPROXY=off GOSUMDB=off GOTOOLCHAIN=local GOWORK=off
mkdir -p ../bin ../out ../evidence
go build -o ../bin/pv ./cmd/pv
