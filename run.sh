#!/bin/sh
# usage: run.sh <ID> quick|thorough
cd "$(dirname "$0")" || exit 2
export GOFLAGS=-mod=mod GOPROXY=off GOSUMDB=off GOTOOLCHAIN=local GOWORK=off
[ -x bin/pv ] || ./setup.sh >/dev/null 2>&1 || { echo "VIOLATION property=$1 replay=/dev/null rule=setup kind=undecided :: cannot build the checker"; exit 2; }
tier=${2:-quick}
if [ "$tier" = thorough ]; then
  # same rules under two build configurations (amd64, 386), then checker validation both ways: sensitivity on the mutant
  # corpus and on the independent seeded changes, silence on the behaviour-preserving controls, mutants on top of controls
  bin/pv check -repo /repo -verif "$(pwd)" -tier thorough "$1"; rc=$?
  python3 tools/selftest.py -q --full "$1"
  # sensitivity under refactoring: each mutant of this property on top of behaviour-preserving controls
  python3 tools/cross.py -j 8 3 "$1"
  [ -f out/crossref.txt ] || tools/crossref.sh >/dev/null 2>&1
  exit $rc
fi
exec bin/pv check -repo /repo -verif "$(pwd)" -tier quick "$1"
