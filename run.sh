#!/bin/sh
# usage: run.sh <ID> quick|thorough
cd "$(dirname "$0")" || exit 2
export GOFLAGS=-mod=mod GOPROXY=off GOSUMDB=off GOTOOLCHAIN=local GOWORK=off
unset GOWORK_FILE
[ -x bin/pv ] || ./setup.sh >/dev/null 2>&1 || { echo "VIOLATION property=$1 replay=/dev/null rule=setup kind=undecided :: cannot build the checker"; exit 2; }
tier=${2:-quick}
if [ "$tier" = thorough ]; then
  exec bin/pv thorough -repo /repo -verif "$(pwd)" "$1"
fi
exec bin/pv check -repo /repo -verif "$(pwd)" -tier quick "$1"
