package main

import (
	"flag"
	"fmt"
	"os"
	"path/filepath"
	"strconv"
	"strings"
	"time"

	"pv/internal/load"
	"pv/internal/own"
	"pv/internal/report"
	"pv/internal/rules"
)

func check(args []string) int {
	fs := flag.NewFlagSet("check", flag.ExitOnError)
	repo := fs.String("repo", "/repo", "repository root")
	verif := fs.String("verif", "/verif", "verification directory")
	tier := fs.String("tier", "quick", "quick|thorough")
	fs.Parse(args)
	if fs.NArg() != 1 {
		fmt.Fprintln(os.Stderr, "usage: pv check [-tier quick|thorough] <ID>")
		return 2
	}
	id := fs.Arg(0)
	started := time.Now()
	prop := rules.Registry[id]
	if prop == nil {
		fmt.Fprintf(os.Stderr, "unknown property %s (known: %v)\n", id, rules.IDs())
		return 2
	}
	seed := 0
	if s := os.Getenv("VERIF_SEED"); s != "" {
		seed, _ = strconv.Atoi(s)
	}
	known, err := report.LoadKnown(filepath.Join(*verif, "known_findings.json"))
	if err != nil {
		fmt.Fprintln(os.Stderr, err)
		return 2
	}
	abs, _ := filepath.Abs(*repo)
	type cfg struct{ arch, cg string }
	cfgs := []cfg{{"amd64", "vta"}}
	if *tier == "thorough" {
		// a second build configuration (32-bit int, any build-constrained file). A CHA-only call graph was tried as a
		// third configuration and dropped: it makes the per-call type *sequence look invocable through the Parser
		// interface by anybody, which turns its scratch-slice writes into false alarms (DESIGN §3.2).
		cfgs = append(cfgs, cfg{"386", "vta"})
	}
	var results []*report.Result
	for _, cf := range cfgs {
		name := "GOARCH=" + cf.arch + " callgraph=" + cf.cg
		p, err := load.Load(load.Config{Dir: abs, GOARCH: cf.arch, CG: cf.cg})
		if err != nil {
			r := report.NewResult(id, name)
			r.Fail("undecided", "load", "load "+name, "-", "-", "the checker cannot read the tree, so nothing is certified: "+err.Error())
			results = append(results, r)
			continue
		}
		c := rules.NewCtx(p, id, name)
		func() {
			defer func() {
				if rec := recover(); rec != nil {
					c.R.Fail("undecided", "checker-panic", "panic "+name, "-", "-", fmt.Sprintf("checker panicked: %v", rec))
				}
			}()
			prop.Run(c)
		}()
		c.R.Finish()
		c.R.Extra["packages"] = p.LibKeys()
		c.R.Extra["library_functions"] = len(p.LibFuncs)
		results = append(results, c.R)
	}
	return report.Emit(*verif, prop.Meta, *tier, seed, results, known, started, nil)
}

func main() {
	if len(os.Args) < 2 {
		fmt.Fprintln(os.Stderr, "usage: pv check|own ...")
		os.Exit(2)
	}
	switch os.Args[1] {
	case "check":
		os.Exit(check(os.Args[2:]))
	case "thorough":
		os.Exit(check(append([]string{"-tier", "thorough"}, os.Args[2:]...)))
	case "ssa":
		repoDir := "/repo"
		if d := os.Getenv("PV_REPO"); d != "" {
			repoDir = d
		}
		p, err := load.Load(load.Config{Dir: repoDir})
		if err != nil {
			fmt.Fprintln(os.Stderr, err)
			os.Exit(2)
		}
		for _, fn := range p.LibFuncs {
			if len(os.Args) > 2 && p.Name(fn) == os.Args[2] {
				fn.WriteTo(os.Stdout)
			}
		}
	case "own":
		fs := flag.NewFlagSet("own", flag.ExitOnError)
		repo := fs.String("repo", "/repo", "repository root")
		all := fs.Bool("fresh", false, "also list writes to fresh memory")
		fs.Parse(os.Args[2:])
		p, err := load.Load(load.Config{Dir: *repo})
		if err != nil {
			fmt.Fprintln(os.Stderr, err)
			os.Exit(2)
		}
		a := own.Analyze(p)
		fmt.Printf("rounds=%d converged=%v funcs=%d\n", a.Rounds, a.Converged(), len(p.LibFuncs))
		for _, fn := range p.LibFuncs {
			name := p.Name(fn)
			if fs.NArg() > 0 && !strings.Contains(name, fs.Arg(0)) {
				continue
			}
			fi := a.Info[fn]
			fmt.Printf("== %s\n", name)
			for i, r := range fi.Results {
				if len(r) > 0 {
					fmt.Printf("   result[%d] = %s\n", i, r)
				}
			}
			for k, v := range fi.ResHeap {
				fmt.Printf("   resheap %s = %s\n", k, v)
			}
			for _, e := range fi.SortedEffects() {
				if e.Root.K == own.RFresh && !*all {
					continue
				}
				fmt.Printf("   W %s  stored=%s\n", a.Describe(e), e.Stored)
			}
		}
	default:
		fmt.Fprintln(os.Stderr, "unknown command")
		os.Exit(2)
	}
}
