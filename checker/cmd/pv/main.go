package main

import (
	"flag"
	"fmt"
	"os"
	"strings"

	"pv/internal/load"
	"pv/internal/own"
)

func main() {
	if len(os.Args) < 2 {
		fmt.Fprintln(os.Stderr, "usage: pv check|own ...")
		os.Exit(2)
	}
	switch os.Args[1] {
	case "own":
		fs := flag.NewFlagSet("own", flag.ExitOnError)
		repo := fs.String("repo", "/repo", "repository root")
		all := fs.Bool("fresh", false, "also list writes to fresh memory")
		fs.Parse(os.Args[2:])
		p, err := load.Load(load.Config{Dir: *repo})
		if err != nil {
			fmt.Fprintln(os.Stderr, err)
			os.Exit(2)
		}
		a := own.Analyze(p)
		fmt.Printf("rounds=%d converged=%v funcs=%d\n", a.Rounds, a.Converged(), len(p.LibFuncs))
		for _, fn := range p.LibFuncs {
			name := p.Name(fn)
			if fs.NArg() > 0 && !strings.Contains(name, fs.Arg(0)) {
				continue
			}
			fi := a.Info[fn]
			fmt.Printf("== %s\n", name)
			for i, r := range fi.Results {
				if len(r) > 0 {
					fmt.Printf("   result[%d] = %s\n", i, r)
				}
			}
			for k, v := range fi.ResHeap {
				fmt.Printf("   resheap %s = %s\n", k, v)
			}
			for _, e := range fi.SortedEffects() {
				if e.Root.K == own.RFresh && !*all {
					continue
				}
				fmt.Printf("   W %s  stored=%s\n", a.Describe(e), e.Stored)
			}
		}
	default:
		fmt.Fprintln(os.Stderr, "unknown command")
		os.Exit(2)
	}
}
