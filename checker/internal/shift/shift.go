// Package shift infers, for every integer in the library, how it moves when the
// base offset of the parsed file moves (DESIGN §2.2-A6): coefficient 1 for
// global positions, 0 for cursors, lengths, counts. A consistent assignment is
// a proof by parametricity that parsing is invariant under the file's placement.
package shift

import (
	"fmt"
	"go/ast"
	"go/token"
	"go/types"
	"sort"
	"strings"

	"golang.org/x/tools/go/ssa"

	"pv/internal/load"
	"pv/internal/ssax"
)

type term struct {
	v    int
	mult int
}

type constraint struct {
	terms []term
	k     int
	instr ssa.Instruction
	fn    *ssa.Function
	what  string
}

// Finding is a contradiction, a leak or a cached offset-dependent value.
type Finding struct {
	Kind  string // contradiction | leak | cached | origin-constant
	Fn    *ssa.Function
	Instr ssa.Instruction
	Msg   string
	Key   string
}

type Result struct {
	P         *load.Prog
	NVars     int
	NCons     int
	Known     int
	Unknown   []string
	Findings  []Finding
	Facts     []string // derived coefficients of struct fields and selected functions
	Exempt    []string
	PosTypes  []string
	FieldCoef map[string]int
}

type engine struct {
	p       *load.Prog
	vars    map[interface{}]int
	names   []string
	parent  []int
	val     map[int]int // root -> coefficient
	why     map[int]string
	cons    []*constraint
	posType map[*types.TypeName]bool
	res     *Result
	nodeIf  *types.Interface
	errIf   *types.Interface
	fileIf  *types.Interface
}

type fieldKey struct {
	f    *types.Var
	elem bool
}
type valElem struct{ v ssa.Value }
type funcSlot struct {
	f    *types.Func
	kind byte // 'p' param, 'r' result
	i    int
}
type mapSlot struct {
	f    interface{}
	kind byte // 'k','v'
}

func (e *engine) v(key interface{}, name string) int {
	if id, ok := e.vars[key]; ok {
		return id
	}
	id := len(e.names)
	e.vars[key] = id
	e.names = append(e.names, name)
	e.parent = append(e.parent, id)
	return id
}

func (e *engine) find(x int) int {
	for e.parent[x] != x {
		e.parent[x] = e.parent[e.parent[x]]
		x = e.parent[x]
	}
	return x
}

func isInt(t types.Type) bool {
	b, ok := t.Underlying().(*types.Basic)
	return ok && b.Info()&types.IsInteger != 0
}

func (e *engine) isPosType(t types.Type) bool {
	n, ok := types.Unalias(t).(*types.Named)
	return ok && e.posType[n.Obj()]
}

func (e *engine) add(fn *ssa.Function, in ssa.Instruction, what string, k int, ts ...term) {
	e.cons = append(e.cons, &constraint{terms: ts, k: k, instr: in, fn: fn, what: what})
}

func (e *engine) eq(fn *ssa.Function, in ssa.Instruction, what string, a, b int) {
	if a < 0 || b < 0 {
		return
	}
	e.add(fn, in, what, 0, term{a, 1}, term{b, -1})
}

func (e *engine) fix(fn *ssa.Function, in ssa.Instruction, what string, a, k int) {
	if a < 0 {
		return
	}
	e.add(fn, in, what, k, term{a, 1})
}

// valVar returns the variable of an integer SSA value (-1 for non-integers and wildcards).
func (e *engine) valVar(fn *ssa.Function, v ssa.Value) int {
	if v == nil || !isInt(v.Type()) {
		return -1
	}
	id := e.v(v, e.p.Name(fn)+":"+v.Name())
	return id
}

// Analyze builds and solves the constraint system over all library functions.
func Analyze(p *load.Prog) *Result {
	e := &engine{p: p, vars: map[interface{}]int{}, val: map[int]int{}, why: map[int]string{}, posType: map[*types.TypeName]bool{}, res: &Result{P: p, FieldCoef: map[string]int{}}}
	e.findPosTypes()
	if pk := p.Lib["parsley"]; pk != nil {
		if o := pk.Types.Scope().Lookup("Node"); o != nil {
			e.nodeIf, _ = o.Type().Underlying().(*types.Interface)
		}
		if o := pk.Types.Scope().Lookup("Error"); o != nil {
			e.errIf, _ = o.Type().Underlying().(*types.Interface)
		}
		if o := pk.Types.Scope().Lookup("File"); o != nil {
			e.fileIf, _ = o.Type().Underlying().(*types.Interface)
		}
	}
	e.unifyInterfaces()
	for _, fn := range p.LibFuncs {
		e.function(fn)
	}
	e.solve()
	e.report()
	return e.res
}

// findPosTypes: parsley.Pos and every named type declared directly as it (ast.EmptyNode, parser.EndNode).
func (e *engine) findPosTypes() {
	var pos *types.TypeName
	if pk := e.p.Lib["parsley"]; pk != nil {
		pos, _ = pk.Types.Scope().Lookup("Pos").(*types.TypeName)
	}
	if pos == nil {
		return
	}
	e.posType[pos] = true
	for _, k := range e.p.LibKeys() {
		pk := e.p.Lib[k]
		for _, f := range pk.Syntax {
			for _, d := range f.Decls {
				gd, ok := d.(*ast.GenDecl)
				if !ok || gd.Tok != token.TYPE {
					continue
				}
				for _, sp := range gd.Specs {
					ts := sp.(*ast.TypeSpec)
					if rt := pk.TypesInfo.TypeOf(ts.Type); rt != nil {
						if n, ok := types.Unalias(rt).(*types.Named); ok && n.Obj() == pos {
							if tn, ok := pk.TypesInfo.Defs[ts.Name].(*types.TypeName); ok {
								e.posType[tn] = true
							}
						}
					}
				}
			}
		}
	}
	for tn := range e.posType {
		e.res.PosTypes = append(e.res.PosTypes, tn.Pkg().Name()+"."+tn.Name())
	}
	sort.Strings(e.res.PosTypes)
}

func (e *engine) slot(f *types.Func, kind byte, i int) int {
	f = f.Origin()
	return e.v(funcSlot{f, kind, i}, fmt.Sprintf("%s#%c%d", f.FullName(), kind, i))
}

// unifyInterfaces ties the parameter/result slots of interface methods to those of their library implementations.
func (e *engine) unifyInterfaces() {
	var ifaces []*types.Named
	var concretes []types.Type
	for _, k := range e.p.LibKeys() {
		sc := e.p.Lib[k].Types.Scope()
		for _, n := range sc.Names() {
			tn, ok := sc.Lookup(n).(*types.TypeName)
			if !ok || tn.IsAlias() {
				continue
			}
			nt, ok := tn.Type().(*types.Named)
			if !ok {
				continue
			}
			if _, isI := nt.Underlying().(*types.Interface); isI {
				ifaces = append(ifaces, nt)
			} else {
				concretes = append(concretes, nt, types.NewPointer(nt))
			}
		}
	}
	for _, it := range ifaces {
		iface := it.Underlying().(*types.Interface)
		for _, ct := range concretes {
			if !types.Implements(ct, iface) {
				continue
			}
			ms := types.NewMethodSet(ct)
			for i := 0; i < iface.NumMethods(); i++ {
				im := iface.Method(i)
				sel := ms.Lookup(im.Pkg(), im.Name())
				if sel == nil {
					continue
				}
				cm, ok := sel.Obj().(*types.Func)
				if !ok {
					continue
				}
				isig := im.Type().(*types.Signature)
				for j := 0; j < isig.Params().Len(); j++ {
					if isInt(isig.Params().At(j).Type()) {
						e.eq(nil, nil, "interface method "+im.FullName()+" implemented by "+cm.FullName(), e.slot(im, 'p', j), e.slot(cm, 'p', j))
					}
				}
				for j := 0; j < isig.Results().Len(); j++ {
					if isInt(isig.Results().At(j).Type()) {
						e.eq(nil, nil, "interface method "+im.FullName()+" implemented by "+cm.FullName(), e.slot(im, 'r', j), e.slot(cm, 'r', j))
					}
				}
			}
		}
	}
}

// elemVar: the variable standing for the integer elements of a slice/array/map-valued SSA value.
func (e *engine) elemVar(fn *ssa.Function, v ssa.Value, depth int) int {
	v = ssax.Strip(v)
	if depth > 6 {
		return e.v(valElem{v}, e.p.Name(fn)+":"+v.Name()+"[]")
	}
	switch x := v.(type) {
	case *ssa.UnOp:
		if x.Op == token.MUL {
			if fa, ok := x.X.(*ssa.FieldAddr); ok {
				st := fa.X.Type().Underlying().(*types.Pointer).Elem().Underlying().(*types.Struct)
				return e.v(fieldKey{st.Field(fa.Field), true}, fieldName(fa.X.Type().Underlying().(*types.Pointer).Elem(), st.Field(fa.Field))+"[]")
			}
			// load of a local variable: elements of the variable
			return e.v(valElem{x.X}, e.p.Name(fn)+":"+x.X.Name()+"[]")
		}
	case *ssa.Field:
		st := x.X.Type().Underlying().(*types.Struct)
		return e.v(fieldKey{st.Field(x.Field), true}, fieldName(x.X.Type(), st.Field(x.Field))+"[]")
	case *ssa.Slice:
		return e.elemVar(fn, x.X, depth+1)
	case *ssa.Phi:
		id := e.v(valElem{x}, e.p.Name(fn)+":"+x.Name()+"[]")
		return id
	case *ssa.Call:
		if b, ok := x.Call.Value.(*ssa.Builtin); ok && b.Name() == "append" {
			return e.elemVar(fn, x.Call.Args[0], depth+1)
		}
		if sc := x.Call.StaticCallee(); sc != nil && sc.Object() != nil {
			if f, ok := sc.Object().(*types.Func); ok {
				return e.v(funcSlot{f.Origin(), 'e', 0}, f.FullName()+"#result[]")
			}
		}
	case *ssa.Parameter:
		return e.v(valElem{x}, e.p.Name(fn)+":"+x.Name()+"[]")
	case *ssa.Alloc:
		return e.v(valElem{x}, e.p.Name(fn)+":"+x.Name()+"[]")
	}
	return e.v(valElem{v}, e.p.Name(fn)+":"+v.Name()+"[]")
}

func fieldName(st types.Type, f *types.Var) string {
	s := st.String()
	if i := strings.LastIndex(s, "/"); i >= 0 {
		s = s[i+1:]
	}
	return s + "." + f.Name()
}

func (e *engine) fieldVarOf(fa *ssa.FieldAddr) int {
	pt := fa.X.Type().Underlying().(*types.Pointer).Elem()
	st := pt.Underlying().(*types.Struct)
	f := st.Field(fa.Field)
	if !isInt(f.Type()) {
		return -1
	}
	return e.v(fieldKey{f, false}, fieldName(pt, f))
}

func (e *engine) function(fn *ssa.Function) {
	name := e.p.Name(fn)
	// parameters / results tied to the function object's slots
	var fobj *types.Func
	if o, ok := fn.Object().(*types.Func); ok && fn.Synthetic == "" {
		fobj = o
	}
	np := 0
	for i, p := range fn.Params {
		if fn.Signature.Recv() != nil && i == 0 {
			continue
		}
		j := np
		np++
		if !isInt(p.Type()) {
			continue
		}
		pv := e.valVar(fn, p)
		if fobj != nil {
			e.eq(fn, nil, "parameter "+p.Name()+" of "+name, pv, e.slot(fobj, 'p', j))
		}
	}
	for _, b := range fn.Blocks {
		for _, in := range b.Instrs {
			e.instr(fn, fobj, in)
		}
	}
	// type-driven facts for all integer values
	for _, b := range fn.Blocks {
		for _, in := range b.Instrs {
			if v, ok := in.(ssa.Value); ok && isInt(v.Type()) && e.isPosType(v.Type()) {
				switch x := v.(type) {
				case *ssa.BinOp, *ssa.Phi:
					// differences and sums of positions have whatever coefficient the arithmetic gives them
					continue
				case *ssa.UnOp:
					if x.Op != token.MUL {
						continue
					}
				case *ssa.Convert:
					if e.isPosType(x.X.Type()) {
						continue
					}
				case *ssa.ChangeType:
					if e.isPosType(x.X.Type()) {
						continue
					}
				}
				e.fix(fn, in, "value of position type "+typeName(v.Type()), e.valVar(fn, v), 1)
			}
		}
	}
	for _, p := range fn.Params {
		if isInt(p.Type()) && e.isPosType(p.Type()) {
			e.fix(fn, nil, "parameter "+p.Name()+" of position type in "+name, e.valVar(fn, p), 1)
		}
	}
	for _, p := range fn.FreeVars {
		_ = p
	}
}

func typeName(t types.Type) string {
	s := t.String()
	if i := strings.LastIndex(s, "/"); i >= 0 {
		s = s[i+1:]
	}
	return s
}

func (e *engine) operand(fn *ssa.Function, in ssa.Instruction, v ssa.Value) int {
	if c, ok := v.(*ssa.Const); ok {
		if !isInt(c.Type()) {
			return -1
		}
		id := e.v(struct {
			c  *ssa.Const
			in ssa.Instruction
		}{c, in}, "const "+c.String())
		if !e.isPosType(c.Type()) {
			e.fix(fn, in, "integer constant "+c.String(), id, 0)
		}
		return id
	}
	return e.valVar(fn, v)
}

func isZeroConst(v ssa.Value) bool {
	k, ok := ssax.ConstInt(v)
	return ok && k == 0
}

func (e *engine) instr(fn *ssa.Function, fobj *types.Func, in ssa.Instruction) {
	switch x := in.(type) {
	case *ssa.BinOp:
		switch x.Op {
		case token.ADD, token.SUB:
			if !isInt(x.Type()) {
				return
			}
			a, b, z := e.operand(fn, in, x.X), e.operand(fn, in, x.Y), e.valVar(fn, x)
			m := 1
			if x.Op == token.SUB {
				m = -1
			}
			e.add(fn, in, "arithmetic "+x.X.Name()+" "+x.Op.String()+" "+x.Y.Name(), 0, term{z, 1}, term{a, -1}, term{b, -m})
		case token.EQL, token.NEQ, token.LSS, token.LEQ, token.GTR, token.GEQ:
			if !isInt(x.X.Type()) {
				return
			}
			// comparison with the literal 0 of a position type: the NilPos sentinel
			if (isZeroConst(x.X) && e.isPosType(x.X.Type())) || (isZeroConst(x.Y) && e.isPosType(x.Y.Type())) {
				e.res.Exempt = appendOnce(e.res.Exempt, "comparison of a position with the literal 0 (NilPos sentinel)")
				return
			}
			// the same test written on the converted value: int(pos) == 0
			if x.Op == token.EQL || x.Op == token.NEQ {
				fromPos := func(v ssa.Value) bool {
					for {
						switch c := v.(type) {
						case *ssa.Convert:
							if e.isPosType(c.X.Type()) {
								return true
							}
							v = c.X
						case *ssa.ChangeType:
							if e.isPosType(c.X.Type()) {
								return true
							}
							v = c.X
						case *ssa.UnOp:
							// a local variable (spilled because a closure captures it) holding only converted positions
							al, ok := c.X.(*ssa.Alloc)
							if !ok || c.Op != token.MUL || al.Referrers() == nil {
								return false
							}
							var stored ssa.Value
							for _, r := range *al.Referrers() {
								if st, ok := r.(*ssa.Store); ok && st.Addr == ssa.Value(al) {
									if stored != nil {
										return false
									}
									stored = st.Val
								}
							}
							if stored == nil {
								return false
							}
							v = stored
						default:
							return false
						}
					}
				}
				if isZeroConst(x.X) && fromPos(x.Y) || isZeroConst(x.Y) && fromPos(x.X) {
					e.res.Exempt = appendOnce(e.res.Exempt, "equality test of a converted position with the literal 0 (NilPos sentinel)")
					return
				}
			}
			e.eq(fn, in, "comparison "+x.X.Name()+" "+x.Op.String()+" "+x.Y.Name()+": both sides must move together", e.operand(fn, in, x.X), e.operand(fn, in, x.Y))
		default:
			if isInt(x.Type()) {
				e.fix(fn, in, "operand of "+x.Op.String(), e.operand(fn, in, x.X), 0)
				e.fix(fn, in, "operand of "+x.Op.String(), e.operand(fn, in, x.Y), 0)
				e.fix(fn, in, "result of "+x.Op.String(), e.valVar(fn, x), 0)
			}
		}
	case *ssa.UnOp:
		switch x.Op {
		case token.MUL:
			if !isInt(x.Type()) {
				return
			}
			z := e.valVar(fn, x)
			switch a := x.X.(type) {
			case *ssa.FieldAddr:
				e.eq(fn, in, "load of field", z, e.fieldVarOf(a))
			case *ssa.IndexAddr:
				e.eq(fn, in, "load of element", z, e.elemVar(fn, a.X, 0))
			case *ssa.Global:
				e.eq(fn, in, "load of global", z, e.v(a, "global "+a.Name()))
			default:
				e.eq(fn, in, "load of variable", z, e.v(valElem{x.X}, e.p.Name(fn)+":*"+x.X.Name()))
			}
		case token.SUB:
			if isInt(x.Type()) {
				e.add(fn, in, "negation", 0, term{e.valVar(fn, x), 1}, term{e.operand(fn, in, x.X), 1})
			}
		}
	case *ssa.Store:
		if !isInt(x.Val.Type()) {
			return
		}
		var dst int
		var dstName string
		switch a := x.Addr.(type) {
		case *ssa.FieldAddr:
			dst = e.fieldVarOf(a)
			dstName = "field"
			if _, isC := x.Val.(*ssa.Const); isC {
				// a constant stored into a field: recorded; decided in report() once the field's coefficient is known
				e.cons = append(e.cons, &constraint{terms: []term{{dst, 1}}, k: -999, instr: in, fn: fn, what: "constant store"})
				return
			}
		case *ssa.IndexAddr:
			dst = e.elemVar(fn, a.X, 0)
			dstName = "element"
			e.fix(fn, in, "index", e.operand(fn, in, a.Index), 0)
		case *ssa.Global:
			dst = e.v(a, "global "+a.Name())
			dstName = "global"
		default:
			dst = e.v(valElem{x.Addr}, e.p.Name(fn)+":*"+x.Addr.Name())
			dstName = "variable"
		}
		e.eq(fn, in, "store to "+dstName, dst, e.operand(fn, in, x.Val))
	case *ssa.IndexAddr:
		e.fix(fn, in, "index expression", e.operand(fn, in, x.Index), 0)
	case *ssa.Index:
		e.fix(fn, in, "index expression", e.operand(fn, in, x.Index), 0)
		if isInt(x.Type()) {
			e.eq(fn, in, "element load", e.valVar(fn, x), e.elemVar(fn, x.X, 0))
		}
	case *ssa.Slice:
		for _, b := range []ssa.Value{x.Low, x.High, x.Max} {
			if b != nil {
				e.fix(fn, in, "slice bound", e.operand(fn, in, b), 0)
			}
		}
	case *ssa.MakeSlice:
		e.fix(fn, in, "make length", e.operand(fn, in, x.Len), 0)
		e.fix(fn, in, "make capacity", e.operand(fn, in, x.Cap), 0)
	case *ssa.MakeMap:
		if x.Reserve != nil {
			e.fix(fn, in, "make size", e.operand(fn, in, x.Reserve), 0)
		}
	case *ssa.Lookup:
		mt, ok := x.X.Type().Underlying().(*types.Map)
		if !ok {
			e.fix(fn, in, "string index", e.operand(fn, in, x.Index), 0)
			return
		}
		e.eq(fn, in, "map key", e.operand(fn, in, x.Index), e.mapVar(fn, x.X, 'k', mt.Key()))
		if !x.CommaOk && isInt(x.Type()) {
			e.eq(fn, in, "map value", e.valVar(fn, x), e.mapVar(fn, x.X, 'v', mt.Elem()))
		} else if x.CommaOk && isInt(mt.Elem()) {
			for _, ex := range ssax.Extracts(x, 0) {
				e.eq(fn, in, "map value", e.valVar(fn, ex), e.mapVar(fn, x.X, 'v', mt.Elem()))
			}
		}
	case *ssa.MapUpdate:
		mt := x.Map.Type().Underlying().(*types.Map)
		e.eq(fn, in, "map key", e.operand(fn, in, x.Key), e.mapVar(fn, x.Map, 'k', mt.Key()))
		e.eq(fn, in, "map value", e.operand(fn, in, x.Value), e.mapVar(fn, x.Map, 'v', mt.Elem()))
	case *ssa.Next:
		if x.IsString {
			return
		}
		rg, ok := x.Iter.(*ssa.Range)
		if !ok {
			return
		}
		mt, ok := rg.X.Type().Underlying().(*types.Map)
		if !ok {
			return
		}
		for _, ex := range ssax.Extracts(x, 1) {
			e.eq(fn, in, "map key", e.valVar(fn, ex), e.mapVar(fn, rg.X, 'k', mt.Key()))
		}
		for _, ex := range ssax.Extracts(x, 2) {
			e.eq(fn, in, "map value", e.valVar(fn, ex), e.mapVar(fn, rg.X, 'v', mt.Elem()))
		}
	case *ssa.Phi:
		if !isInt(x.Type()) {
			return
		}
		z := e.valVar(fn, x)
		for _, ed := range x.Edges {
			if isZeroConst(ed) && e.isPosType(x.Type()) {
				continue // NilPos initialisation of a position variable
			}
			e.eq(fn, in, "phi", z, e.operand(fn, in, ed))
		}
	case *ssa.Convert:
		if isInt(x.Type()) && isInt(x.X.Type()) {
			e.eq(fn, in, "integer conversion", e.valVar(fn, x), e.operand(fn, in, x.X))
		} else if isInt(x.X.Type()) {
			// to float / string: the value leaves the integer domain
			e.cons = append(e.cons, &constraint{terms: []term{{e.operand(fn, in, x.X), 1}}, k: -998, instr: in, fn: fn, what: "conversion to " + typeName(x.Type())})
		}
	case *ssa.ChangeType:
		if isInt(x.Type()) {
			e.eq(fn, in, "type change", e.valVar(fn, x), e.operand(fn, in, x.X))
		}
	case *ssa.MakeInterface:
		if isInt(x.X.Type()) {
			if _, isC := x.X.(*ssa.Const); isC {
				return
			}
			// boxing: nodes of position type (EmptyNode, EndNode) are results, everything else is a potential leak
			if e.isPosType(x.X.Type()) && e.nodeIf != nil && types.Implements(x.X.Type(), e.nodeIf) {
				return
			}
			e.cons = append(e.cons, &constraint{terms: []term{{e.operand(fn, in, x.X), 1}}, k: -997, instr: in, fn: fn, what: "boxed into " + typeName(x.Type())})
		}
	case *ssa.Extract:
		// handled at the producing instruction
	case *ssa.Return:
		if fobj == nil {
			// closures: results constrained by type only
			return
		}
		for i, r := range x.Results {
			if isInt(r.Type()) {
				e.eq(fn, in, "result of "+e.p.Name(fn), e.operand(fn, in, r), e.slot(fobj, 'r', i))
			} else if _, isSl := r.Type().Underlying().(*types.Slice); isSl {
				e.eq(fn, in, "result elements", e.elemVar(fn, r, 0), e.v(funcSlot{fobj.Origin(), 'e', 0}, fobj.FullName()+"#result[]"))
			}
		}
	case ssa.CallInstruction:
		e.call(fn, x)
	}
}

func appendOnce(l []string, s string) []string {
	for _, x := range l {
		if x == s {
			return l
		}
	}
	return append(l, s)
}

// mapVar: variable of the keys/values of a map-valued SSA value (field-based where possible).
func (e *engine) mapVar(fn *ssa.Function, m ssa.Value, kind byte, t types.Type) int {
	if !isInt(t) {
		return -1
	}
	m = ssax.Strip(m)
	var base interface{} = m
	name := e.p.Name(fn) + ":" + m.Name()
	switch x := m.(type) {
	case *ssa.UnOp:
		if fa, ok := x.X.(*ssa.FieldAddr); ok && x.Op == token.MUL {
			st := fa.X.Type().Underlying().(*types.Pointer).Elem().Underlying().(*types.Struct)
			base = st.Field(fa.Field)
			name = fieldName(fa.X.Type().Underlying().(*types.Pointer).Elem(), st.Field(fa.Field))
		}
	case *ssa.Field:
		st := x.X.Type().Underlying().(*types.Struct)
		base = st.Field(x.Field)
		name = fieldName(x.X.Type(), st.Field(x.Field))
	case *ssa.Lookup:
		// inner map of a map of maps: keyed by the map type
		base = x.Type().String()
		name = typeName(x.Type())
	case *ssa.MakeMap:
		base = x.Type().String()
		name = typeName(x.Type())
	}
	if _, isVal := base.(ssa.Value); isVal {
		// fall back to the map's type: all maps of one named/int-int type share key/value variables
		base = m.Type().String()
		name = typeName(m.Type())
	}
	id := e.v(mapSlot{base, kind}, fmt.Sprintf("%s{%c}", name, kind))
	if e.isPosType(t) {
		e.fix(fn, nil, "map "+string(kind)+" of position type", id, 1)
	}
	return id
}

func (e *engine) call(fn *ssa.Function, c ssa.CallInstruction) {
	cc := c.Common()
	cv, _ := c.(ssa.Value)
	in := c.(ssa.Instruction)
	if b, ok := cc.Value.(*ssa.Builtin); ok && !cc.IsInvoke() {
		switch b.Name() {
		case "len", "cap":
			if cv != nil {
				e.fix(fn, in, b.Name()+"()", e.valVar(fn, cv), 0)
			}
		case "append":
			if cv != nil && len(cc.Args) == 2 {
				if sl, ok := cc.Args[0].Type().Underlying().(*types.Slice); ok && isInt(sl.Elem()) {
					e.eq(fn, in, "append elements", e.elemVar(fn, cc.Args[0], 0), e.elemVar(fn, cc.Args[1], 0))
				}
			}
		case "copy":
			if sl, ok := cc.Args[0].Type().Underlying().(*types.Slice); ok && isInt(sl.Elem()) {
				e.eq(fn, in, "copy elements", e.elemVar(fn, cc.Args[0], 0), e.elemVar(fn, cc.Args[1], 0))
			}
			if cv != nil {
				e.fix(fn, in, "copy()", e.valVar(fn, cv), 0)
			}
		case "min", "max":
			if cv != nil && isInt(cv.Type()) {
				for _, a := range cc.Args {
					e.eq(fn, in, b.Name()+"()", e.valVar(fn, cv), e.operand(fn, in, a))
				}
			}
		}
		return
	}
	var target *types.Func
	args := cc.Args
	if cc.IsInvoke() {
		target = cc.Method
	} else if sc := cc.StaticCallee(); sc != nil {
		if o, ok := sc.Object().(*types.Func); ok {
			target = o
			if sc.Signature.Recv() != nil {
				args = args[1:]
			}
		} else if sc.Parent() != nil || sc.Synthetic != "" {
			target = nil
		}
	}
	inLib := target != nil && target.Pkg() != nil && e.p.InLibPkg(target.Pkg())
	sig := ssax.CallSig(c)
	switch {
	case inLib:
		for i, a := range args {
			if i < sig.Params().Len() || sig.Variadic() {
				if isInt(a.Type()) {
					e.eq(fn, in, fmt.Sprintf("argument %d of %s", i, target.FullName()), e.operand(fn, in, a), e.slot(target, 'p', i))
				}
			}
		}
		e.bindResults(fn, in, cv, sig, func(i int) int { return e.slot(target, 'r', i) })
		if cv != nil {
			if _, isSl := cv.Type().Underlying().(*types.Slice); isSl {
				e.eq(fn, in, "result elements", e.elemVar(fn, cv, 0), e.v(funcSlot{target.Origin(), 'e', 0}, target.FullName()+"#result[]"))
			}
		}
	case target != nil || cc.StaticCallee() != nil && cc.StaticCallee().Pkg != nil && !e.p.InLib(cc.StaticCallee()):
		// outside the library: integer arguments must not depend on the placement, results do not
		name := ""
		if target != nil {
			name = target.FullName()
		} else {
			name = cc.StaticCallee().String()
		}
		if strings.HasPrefix(name, "sync/atomic.") {
			return
		}
		// sort.SearchInts(a, x) compares the elements of a with x: both sides must move together; the index returned
		// does not move
		if name == "sort.SearchInts" && len(args) == 2 {
			e.eq(fn, in, "comparison inside sort.SearchInts: elements and the value searched for must move together", e.elemVar(fn, args[0], 0), e.operand(fn, in, args[1]))
			if cv != nil {
				e.fix(fn, in, "index returned by sort.SearchInts", e.valVar(fn, cv), 0)
			}
			return
		}
		for _, a := range args {
			if isInt(a.Type()) {
				if _, isC := a.(*ssa.Const); isC {
					continue
				}
				e.cons = append(e.cons, &constraint{terms: []term{{e.operand(fn, in, a), 1}}, k: -996, instr: in, fn: fn, what: "argument of " + name})
			}
		}
		e.bindResults(fn, in, cv, sig, func(i int) int { return -2 })
	default:
		// closures and function values: arguments and results are constrained by their types only;
		// a statically known closure ties arguments to its parameters
		if sc := cc.StaticCallee(); sc != nil && e.p.InLib(sc) {
			for i, a := range cc.Args {
				if i < len(sc.Params) && isInt(a.Type()) {
					e.eq(fn, in, "closure argument", e.operand(fn, in, a), e.valVar(sc, sc.Params[i]))
				}
			}
		}
	}
}

func (e *engine) bindResults(fn *ssa.Function, in ssa.Instruction, cv ssa.Value, sig *types.Signature, slot func(int) int) {
	if cv == nil || sig == nil {
		return
	}
	res := sig.Results()
	if res.Len() == 1 {
		if isInt(cv.Type()) {
			s := slot(0)
			if s == -2 {
				e.fix(fn, in, "result of an external call", e.valVar(fn, cv), 0)
			} else {
				e.eq(fn, in, "call result", e.valVar(fn, cv), s)
			}
		}
		return
	}
	for i := 0; i < res.Len(); i++ {
		if !isInt(res.At(i).Type()) {
			continue
		}
		for _, ex := range ssax.Extracts(cv, i) {
			s := slot(i)
			if s == -2 {
				e.fix(fn, in, "result of an external call", e.valVar(fn, ex), 0)
			} else {
				e.eq(fn, in, "call result", e.valVar(fn, ex), s)
			}
		}
	}
}
