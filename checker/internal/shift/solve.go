package shift

import (
	"fmt"
	"go/types"
	"sort"
	"strings"

	"golang.org/x/tools/go/ssa"
)

func (e *engine) known(v int) (int, bool) {
	k, ok := e.val[e.find(v)]
	return k, ok
}

func (e *engine) set(v, k int, why string) bool {
	r := e.find(v)
	if old, ok := e.val[r]; ok {
		return old == k
	}
	e.val[r] = k
	e.why[r] = why
	return true
}

func (e *engine) union(a, b int) bool {
	ra, rb := e.find(a), e.find(b)
	if ra == rb {
		return true
	}
	ka, oka := e.val[ra]
	kb, okb := e.val[rb]
	if oka && okb && ka != kb {
		return false
	}
	e.parent[ra] = rb
	if oka && !okb {
		e.val[rb] = ka
		e.why[rb] = e.why[ra]
	}
	return true
}

func (e *engine) describe(c *constraint) string {
	var parts []string
	for _, t := range c.terms {
		s := e.names[t.v]
		if k, ok := e.known(t.v); ok {
			s += fmt.Sprintf(" (coefficient %d because %s)", k, e.why[e.find(t.v)])
		} else {
			s += " (unknown)"
		}
		parts = append(parts, s)
	}
	return strings.Join(parts, " ; ")
}

func (e *engine) where(c *constraint) string {
	if c.fn == nil {
		return "-"
	}
	return e.p.Name(c.fn)
}

func (e *engine) solve() {
	bad := map[*constraint]bool{}
	contradiction := func(c *constraint) {
		if bad[c] {
			return
		}
		bad[c] = true
		fn := c.fn
		e.res.Findings = append(e.res.Findings, Finding{Kind: "contradiction", Fn: fn, Instr: c.instr,
			Key: "contradiction | " + e.where(c) + " | " + c.what,
			Msg: fmt.Sprintf("%s in %s relates values that move differently when the file's base offset moves: %s. With the file placed elsewhere in a file set this computation gives a different outcome", c.what, e.where(c), e.describe(c))})
	}
	isCmp := func(c *constraint) bool { return strings.HasPrefix(c.what, "comparison") }
	// pass 1: facts
	for _, c := range e.cons {
		if c.k <= -900 {
			continue
		}
		valid := true
		for _, t := range c.terms {
			if t.v < 0 {
				valid = false
			}
		}
		if !valid {
			c.k = -1000 // dropped: involves a non-integer
			continue
		}
		if len(c.terms) == 1 {
			if !e.set(c.terms[0].v, c.k*c.terms[0].mult, c.what+" in "+e.where(c)) {
				contradiction(c)
			}
		}
	}
	// pass 2: propagate everything except comparisons, then comparisons
	for phase := 0; phase < 2; phase++ {
		for changed := true; changed; {
			changed = false
			for _, c := range e.cons {
				if c.k <= -900 || len(c.terms) == 1 || bad[c] {
					continue
				}
				if phase == 0 && isCmp(c) {
					continue
				}
				// plain equality
				if len(c.terms) == 2 && c.k == 0 && c.terms[0].mult == 1 && c.terms[1].mult == -1 {
					if e.find(c.terms[0].v) != e.find(c.terms[1].v) {
						if !e.union(c.terms[0].v, c.terms[1].v) {
							contradiction(c)
						} else {
							changed = true
						}
					}
					continue
				}
				sum, unk, ui := 0, 0, -1
				for i, t := range c.terms {
					if k, ok := e.known(t.v); ok {
						sum += k * t.mult
					} else {
						unk++
						ui = i
					}
				}
				switch unk {
				case 0:
					if sum != c.k {
						contradiction(c)
					}
				case 1:
					t := c.terms[ui]
					rest := c.k - sum
					if rest%t.mult != 0 {
						contradiction(c)
						continue
					}
					e.set(t.v, rest/t.mult, c.what+" in "+e.where(c))
					changed = true
				default:
					// two unknowns in x - y - z = 0 style sums: if two of them are the same class, cancel
				}
			}
		}
	}
}

func (e *engine) allowedHolder(st types.Type, field *types.Var) (bool, string) {
	n, ok := types.Unalias(st).(*types.Named)
	if !ok {
		return false, ""
	}
	name := n.Obj().Pkg().Name() + "." + n.Obj().Name() + "." + field.Name()
	if e.fileIf != nil && (types.Implements(n, e.fileIf) || types.Implements(types.NewPointer(n), e.fileIf)) {
		return true, "a field of the file object itself (its base offset is written by SetOffset)"
	}
	if n.Obj().Pkg().Name() == "parsley" && n.Obj().Name() == "FileSet" {
		return true, "the file set's allocation of base offsets"
	}
	pt := types.NewPointer(n)
	if e.nodeIf != nil && (types.Implements(n, e.nodeIf) || types.Implements(pt, e.nodeIf)) {
		return true, "position of a node (a result)"
	}
	if e.errIf != nil && (types.Implements(n, e.errIf) || types.Implements(pt, e.errIf)) {
		return true, "position of an error (a result)"
	}
	return false, name
}

func (e *engine) report() {
	e.res.NVars = len(e.names)
	e.res.NCons = len(e.cons)
	// field facts and cached positions
	type fk struct {
		key  fieldKey
		id   int
		name string
	}
	var fields []fk
	for k, id := range e.vars {
		if f, ok := k.(fieldKey); ok {
			fields = append(fields, fk{f, id, e.names[id]})
		}
	}
	sort.Slice(fields, func(i, j int) bool { return fields[i].name < fields[j].name })
	owner := e.fieldOwners()
	for _, f := range fields {
		k, ok := e.known(f.id)
		if !ok {
			e.res.Facts = append(e.res.Facts, f.name+" : unconstrained")
			continue
		}
		e.res.Facts = append(e.res.Facts, fmt.Sprintf("%s : %d", f.name, k))
		e.res.FieldCoef[f.name] = k
	}
	// every struct field of position type or with coefficient 1 must live in an allowed holder
	for _, k := range e.p.LibKeys() {
		sc := e.p.Lib[k].Types.Scope()
		for _, n := range sc.Names() {
			tn, ok := sc.Lookup(n).(*types.TypeName)
			if !ok || tn.IsAlias() {
				continue
			}
			st, ok := tn.Type().Underlying().(*types.Struct)
			if !ok {
				continue
			}
			for i := 0; i < st.NumFields(); i++ {
				f := st.Field(i)
				coef1 := false
				ft := f.Type()
				if sl, isSl := ft.Underlying().(*types.Slice); isSl {
					ft = sl.Elem()
					if id, has := e.vars[fieldKey{f, true}]; has {
						if kk, ok := e.known(id); ok && kk != 0 {
							coef1 = true
						}
					}
				}
				if e.isPosType(ft) {
					coef1 = true
				}
				if id, has := e.vars[fieldKey{f, false}]; has {
					if kk, ok := e.known(id); ok && kk != 0 {
						coef1 = true
					}
				}
				if !coef1 {
					continue
				}
				if ok, why := e.allowedHolder(tn.Type(), f); ok {
					e.res.Exempt = appendOnce(e.res.Exempt, fmt.Sprintf("placement-dependent field %s.%s.%s — %s", tn.Pkg().Name(), tn.Name(), f.Name(), why))
				} else {
					var fn *ssa.Function
					var in ssa.Instruction
					if o := owner[f]; o != nil {
						fn, in = o.fn, o.in
					}
					e.res.Findings = append(e.res.Findings, Finding{Kind: "cached", Fn: fn, Instr: in,
						Key: "cached | " + why,
						Msg: fmt.Sprintf("field %s holds a value that depends on the file's base offset, outside the file/file-set/result types: File.SetOffset (called by FileSet.AddFile) can move the file after this copy was taken, so it goes stale and positions computed from it are wrong for a file that is not the first of its set", why)})
				}
			}
		}
	}
	// deferred checks
	for _, c := range e.cons {
		if c.k > -900 || c.k == -1000 {
			continue
		}
		if c.terms[0].v < 0 {
			continue
		}
		k, ok := e.known(c.terms[0].v)
		if !ok || k == 0 {
			continue
		}
		fname := e.where(c)
		switch c.k {
		case -999: // constant stored into a coefficient-1 field
			if strings.HasSuffix(fname, ".NewFile") || strings.HasSuffix(fname, ".NewFileSet") {
				e.res.Exempt = appendOnce(e.res.Exempt, "origin constant in "+fname+": the default base offset of a fresh file / file set")
				continue
			}
			e.res.Findings = append(e.res.Findings, Finding{Kind: "origin-constant", Fn: c.fn, Instr: c.instr, Key: "origin-constant | " + fname + " | " + e.names[c.terms[0].v],
				Msg: fmt.Sprintf("a constant is stored into %s, which holds a placement-dependent value, outside the two origin constructors: the value is right only for a file at the default base offset", e.names[c.terms[0].v])})
		case -998, -997, -996:
			if c.fn != nil && (c.fn.Name() == "String" || c.fn.Name() == "Error") && c.fn.Signature.Recv() != nil {
				e.res.Exempt = appendOnce(e.res.Exempt, "debug renderer "+fname+" prints raw positions by design; not among the property's observables")
				continue
			}
			e.res.Findings = append(e.res.Findings, Finding{Kind: "leak", Fn: c.fn, Instr: c.instr, Key: "leak | " + fname + " | " + c.what,
				Msg: fmt.Sprintf("a placement-dependent value (%s) is %s in %s: raw global positions reach text, floats or foreign code, so output differs with the file's placement", e.describe(c), c.what, fname)})
		}
	}
	nk := 0
	for i := range e.names {
		if _, ok := e.known(i); ok {
			nk++
		} else if len(e.res.Unknown) < 40 {
			e.res.Unknown = append(e.res.Unknown, e.names[i])
		}
	}
	e.res.Known = nk
	sort.Slice(e.res.Findings, func(i, j int) bool { return e.res.Findings[i].Key < e.res.Findings[j].Key })
}

type ownerInfo struct {
	fn *ssa.Function
	in ssa.Instruction
}

// fieldOwners: a representative store instruction for each field (for diagnostics).
func (e *engine) fieldOwners() map[*types.Var]*ownerInfo {
	out := map[*types.Var]*ownerInfo{}
	for _, fn := range e.p.LibFuncs {
		for _, b := range fn.Blocks {
			for _, in := range b.Instrs {
				if st, ok := in.(*ssa.Store); ok {
					if fa, ok := st.Addr.(*ssa.FieldAddr); ok {
						s := fa.X.Type().Underlying().(*types.Pointer).Elem().Underlying().(*types.Struct)
						f := s.Field(fa.Field)
						if out[f] == nil {
							out[f] = &ownerInfo{fn, in}
						}
					}
				}
			}
		}
	}
	return out
}
