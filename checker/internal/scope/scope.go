// Package scope computes which library functions run at parse time, which at
// construction time, and which are internal helpers (DESIGN §2.2-A1).
package scope

import (
	"go/types"
	"sort"
	"strings"

	"golang.org/x/tools/go/ssa"

	"pv/internal/load"
	"pv/internal/ssax"
)

type Scope struct {
	P          *load.Prog
	ParseRoots []*ssa.Function        // library functions with the parser signature
	Parser     map[*ssa.Function]bool // reachable from ParseRoots inside the library
	API        map[*ssa.Function]bool // Parser ∪ reachable from parsley.Parse / Evaluate / EvaluateNode
	Ctor       []*ssa.Function        // exported functions of the constructor packages outside Parser scope
	escaping   map[*ssa.Function]int  // closure -> 1 escapes its creator, 2 does not
}

// CtorPackages are the packages whose exported functions build grammars.
var CtorPackages = []string{"combinator", "parser", "text", "text/terminal", "ast/interpreter"}

func Compute(p *load.Prog) *Scope {
	s := &Scope{P: p, Parser: map[*ssa.Function]bool{}, API: map[*ssa.Function]bool{}, escaping: map[*ssa.Function]int{}}
	for _, fn := range p.LibFuncs {
		if IsParseRoot(fn) {
			s.ParseRoots = append(s.ParseRoots, fn)
		}
	}
	s.reach(s.ParseRoots, s.Parser)
	var apiRoots []*ssa.Function
	apiRoots = append(apiRoots, s.ParseRoots...)
	for _, n := range []string{"parsley.Parse", "parsley.Evaluate", "parsley.EvaluateNode"} {
		if f := p.Func(n); f != nil {
			apiRoots = append(apiRoots, f)
		}
	}
	s.reach(apiRoots, s.API)
	for _, fn := range p.LibFuncs {
		if fn.Parent() != nil || fn.Synthetic != "" || s.Parser[fn] {
			continue
		}
		tp := load.PkgOf(fn)
		if tp == nil {
			continue
		}
		rel := p.Rel(tp.Path())
		in := false
		for _, c := range CtorPackages {
			if rel == c {
				in = true
			}
		}
		if !in || fn.Object() == nil || !fn.Object().Exported() {
			continue
		}
		if recv := fn.Signature.Recv(); recv != nil {
			if n := namedOf(recv.Type()); n == nil || !n.Obj().Exported() {
				continue
			}
		}
		s.Ctor = append(s.Ctor, fn)
	}
	return s
}

func namedOf(t types.Type) *types.Named {
	if p, ok := types.Unalias(t).(*types.Pointer); ok {
		t = p.Elem()
	}
	n, _ := types.Unalias(t).(*types.Named)
	return n
}

// IsParseRoot: the function (without receiver) has the parser signature.
func IsParseRoot(fn *ssa.Function) bool {
	return ssax.IsParserSig(fn.Signature)
}

func (s *Scope) reach(roots []*ssa.Function, set map[*ssa.Function]bool) {
	stack := append([]*ssa.Function{}, roots...)
	for len(stack) > 0 {
		fn := stack[len(stack)-1]
		stack = stack[:len(stack)-1]
		if set[fn] || !s.P.InLib(fn) {
			continue
		}
		set[fn] = true
		if n := s.P.CG.Nodes[fn]; n != nil {
			for _, e := range n.Out {
				stack = append(stack, e.Callee.Func)
			}
		}
		// closures created here run (at the latest) when something in scope calls them; those that are
		// called are reached through call-graph edges, so nothing to add
	}
}

// Sorted returns the members of a function set in name order.
func (s *Scope) Sorted(set map[*ssa.Function]bool) []*ssa.Function {
	var out []*ssa.Function
	for f := range set {
		out = append(out, f)
	}
	sort.Slice(out, func(i, j int) bool { return s.P.Name(out[i]) < s.P.Name(out[j]) })
	return out
}

// Escapes reports whether closure fn can outlive the activation that creates it: its MakeClosure value
// reaches a return, a store, a map update, an interface stored/returned — anything but being called or
// passed down as an argument.
func (s *Scope) Escapes(fn *ssa.Function) bool {
	if v, ok := s.escaping[fn]; ok {
		return v == 1
	}
	par := fn.Parent()
	res := false
	if par != nil {
		for _, b := range par.Blocks {
			for _, in := range b.Instrs {
				if mc, ok := in.(*ssa.MakeClosure); ok && mc.Fn == fn {
					if valueEscapes(mc, map[ssa.Value]bool{}) {
						res = true
					}
				}
			}
		}
	}
	if res {
		s.escaping[fn] = 1
	} else {
		s.escaping[fn] = 2
	}
	return res
}

func valueEscapes(v ssa.Value, seen map[ssa.Value]bool) bool {
	if seen[v] {
		return false
	}
	seen[v] = true
	refs := v.Referrers()
	if refs == nil {
		return true
	}
	for _, r := range *refs {
		switch x := r.(type) {
		case *ssa.Return, *ssa.MapUpdate, *ssa.Send:
			return true
		case *ssa.Store:
			if x.Val == v {
				// stored into a local variable that is itself only read and called: follow loads
				if al, ok := x.Addr.(*ssa.Alloc); ok {
					if allocEscapes(al, seen) {
						return true
					}
					continue
				}
				return true
			}
		case *ssa.ChangeType, *ssa.MakeInterface, *ssa.ChangeInterface, *ssa.Phi:
			if valueEscapes(x.(ssa.Value), seen) {
				return true
			}
		case ssa.CallInstruction:
			// callee position or argument: a downward use (library callees that retain an argument would
			// show up as a store of their parameter, which the ownership engine reports separately)
		case *ssa.MakeClosure:
			return true
		case *ssa.DebugRef:
		default:
			return true
		}
	}
	return false
}

func allocEscapes(al *ssa.Alloc, seen map[ssa.Value]bool) bool {
	refs := al.Referrers()
	if refs == nil {
		return false
	}
	for _, r := range *refs {
		switch x := r.(type) {
		case *ssa.Store:
			if x.Val == al {
				return true
			}
		case *ssa.UnOp:
			if valueEscapes(x, seen) {
				return true
			}
		case *ssa.MakeClosure:
			// captured by another closure: treat as escaping only if that closure escapes
			if fn, ok := x.Fn.(*ssa.Function); ok {
				_ = fn
			}
			if valueEscapes(x, seen) {
				return true
			}
		case *ssa.DebugRef:
		default:
			return true
		}
	}
	return false
}

// Internal reports whether fn is a helper every caller of which is a static call from library code:
// an unexported function, a method of an unexported type, or a non-escaping closure.
func (s *Scope) Internal(fn *ssa.Function) bool {
	if fn.Synthetic != "" {
		return false
	}
	internalName := false
	switch {
	case fn.Parent() != nil:
		internalName = !s.Escapes(fn)
	case fn.Signature.Recv() != nil:
		n := namedOf(fn.Signature.Recv().Type())
		internalName = n != nil && (!n.Obj().Exported() || (fn.Object() != nil && !fn.Object().Exported()))
	default:
		internalName = fn.Object() != nil && !fn.Object().Exported()
	}
	if !internalName {
		return false
	}
	if fn.Parent() != nil {
		return true
	}
	for _, e := range s.P.Callers(fn) {
		if e.Site == nil {
			return false
		}
		if e.Site.Common().StaticCallee() != fn {
			return false
		}
		if !s.P.InLib(e.Caller.Func) {
			return false
		}
	}
	return true
}

// ShortType renders a type without the module prefix.
func (s *Scope) ShortType(t types.Type) string {
	return strings.ReplaceAll(t.String(), s.P.Module+"/", "")
}
