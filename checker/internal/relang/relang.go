// Package relang decides inclusion between the languages of two regular expressions given as constants (RE2/Go
// syntax): a static computation on the patterns themselves — Thompson automata from regexp/syntax, product subset
// construction over a partition of the rune alphabet. Nothing of the analysed library is executed.
package relang

import (
	"fmt"
	"regexp/syntax"
	"sort"
	"strings"
	"unicode"
)

// Lang is a compiled pattern, matched as a whole (anchored at both ends).
type Lang struct {
	Pattern string
	prog    *syntax.Prog
}

// Compile parses pattern with Perl flags. Patterns using case folding, word boundaries or line assertions are outside
// the decided fragment and are rejected.
func Compile(pattern string) (*Lang, error) {
	re, err := syntax.Parse(pattern, syntax.Perl)
	if err != nil {
		return nil, err
	}
	prog, err := syntax.Compile(re.Simplify())
	if err != nil {
		return nil, err
	}
	for _, in := range prog.Inst {
		switch in.Op {
		case syntax.InstEmptyWidth:
			op := syntax.EmptyOp(in.Arg)
			if op&^(syntax.EmptyBeginText|syntax.EmptyEndText) != 0 {
				return nil, fmt.Errorf("assertion %v is outside the decided fragment", op)
			}
		case syntax.InstRune, syntax.InstRune1:
			if syntax.Flags(in.Arg)&syntax.FoldCase != 0 {
				rs := in.Rune
				for i := 0; i+1 < len(rs); i += 2 {
					if rs[i+1]-rs[i] > 4096 {
						return nil, fmt.Errorf("case folding over a large range is outside the decided fragment")
					}
				}
			}
		}
	}
	return &Lang{Pattern: pattern, prog: prog}, nil
}

type set []int

func (s set) key() string {
	var b strings.Builder
	for _, x := range s {
		fmt.Fprintf(&b, "%d,", x)
	}
	return b.String()
}

// closure follows the empty transitions. atStart / atEnd tell which text assertions hold.
func (l *Lang) closure(pcs []int, atStart, atEnd bool) set {
	seen := map[int]bool{}
	var out []int
	var visit func(pc int)
	visit = func(pc int) {
		if seen[pc] {
			return
		}
		seen[pc] = true
		in := &l.prog.Inst[pc]
		switch in.Op {
		case syntax.InstAlt, syntax.InstAltMatch:
			visit(int(in.Out))
			visit(int(in.Arg))
		case syntax.InstNop, syntax.InstCapture:
			visit(int(in.Out))
		case syntax.InstEmptyWidth:
			op := syntax.EmptyOp(in.Arg)
			ok := true
			if op&syntax.EmptyBeginText != 0 && !atStart {
				ok = false
			}
			if op&syntax.EmptyEndText != 0 && !atEnd {
				ok = false
			}
			if ok {
				visit(int(in.Out))
			}
		case syntax.InstFail:
		default:
			out = append(out, pc)
		}
	}
	for _, pc := range pcs {
		visit(pc)
	}
	sort.Ints(out)
	return out
}

func (l *Lang) step(s set, r rune) []int {
	var next []int
	for _, pc := range s {
		in := &l.prog.Inst[pc]
		switch in.Op {
		case syntax.InstRune, syntax.InstRune1, syntax.InstRuneAny, syntax.InstRuneAnyNotNL:
			if in.MatchRune(r) {
				next = append(next, int(in.Out))
			}
		}
	}
	return next
}

// accepts: the set, closed under the assumption that the text ends here, contains a match state.
func (l *Lang) accepts(raw []int, atStart bool) bool {
	for _, pc := range l.closure(raw, atStart, true) {
		if l.prog.Inst[pc].Op == syntax.InstMatch {
			return true
		}
	}
	return false
}

func boundaries(ls ...*Lang) []rune {
	pts := map[rune]bool{0: true, '\n': true, '\n' + 1: true, unicode.MaxRune: true}
	for _, l := range ls {
		for _, in := range l.prog.Inst {
			switch in.Op {
			case syntax.InstRune, syntax.InstRune1:
				rs := in.Rune
				if len(rs) == 1 {
					pts[rs[0]] = true
					pts[rs[0]+1] = true
				}
				for i := 0; i+1 < len(rs); i += 2 {
					pts[rs[i]] = true
					pts[rs[i+1]+1] = true
				}
				if syntax.Flags(in.Arg)&syntax.FoldCase != 0 {
					// every rune of the class and its case-folding orbit is its own alphabet class
					add := func(r rune) {
						for f := unicode.SimpleFold(r); f != r; f = unicode.SimpleFold(f) {
							pts[f] = true
							pts[f+1] = true
						}
						pts[r] = true
						pts[r+1] = true
					}
					if len(rs) == 1 {
						add(rs[0])
					}
					for i := 0; i+1 < len(rs); i += 2 {
						for r := rs[i]; r <= rs[i+1]; r++ {
							add(r)
						}
					}
				}
			}
		}
	}
	var out []rune
	for r := range pts {
		if r >= 0 && r <= unicode.MaxRune {
			out = append(out, r)
		}
	}
	sort.Slice(out, func(i, j int) bool { return out[i] < out[j] })
	return out
}

// Included decides L(a) ⊆ L(b) (both matched as a whole). When it does not hold, witness is a shortest string of
// L(a) that is not in L(b).
func Included(a, b *Lang) (ok bool, witness string) {
	reps := boundaries(a, b)
	type node struct {
		ra, rb []int // raw (unclosed) state sets
		start  bool
		w      string
	}
	startA, startB := []int{a.prog.Start}, []int{b.prog.Start}
	queue := []node{{startA, startB, true, ""}}
	seen := map[string]bool{}
	for len(queue) > 0 {
		n := queue[0]
		queue = queue[1:]
		if a.accepts(n.ra, n.start) && !b.accepts(n.rb, n.start) {
			return false, n.w
		}
		ca, cb := a.closure(n.ra, n.start, false), b.closure(n.rb, n.start, false)
		k := ca.key() + "|" + cb.key()
		if seen[k] {
			continue
		}
		seen[k] = true
		if len(seen) > 200000 {
			return true, "" // give up silently: inclusion not refuted
		}
		for _, r := range reps {
			na := a.step(ca, r)
			if len(na) == 0 {
				continue
			}
			queue = append(queue, node{na, b.step(cb, r), false, n.w + string(r)})
		}
	}
	return true, ""
}
