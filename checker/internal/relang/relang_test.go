package relang

import "testing"

func TestIncluded(t *testing.T) {
	cases := []struct {
		a, b string
		ok   bool
	}{
		{`-?(?:0|[1-9][0-9]*)\.[0-9]+(?:[eE][+-]?[0-9]+)?`, `[-+]?[0-9]*\.[0-9]+(?:[eE][-+]?[0-9]+)?`, true},
		{`-?(?:0|[1-9][0-9]*)\.[0-9]+(?:[eE][+-]?[0-9]+)?`, `[-+]?\d*\.\d+(?:[eE]-?\d+)?`, false},
		{`-?(?:0|[1-9][0-9]*)`, `[-+]?(?:[1-9][0-9]*|0[xX][0-9a-fA-F]+|0[0-7]*)`, true},
		{`a*`, `a+`, false},
		{`ab|ac`, `a[bc]`, true},
		{`[a-z]+`, `[a-y]+`, false},
		{`^ab$`, `ab`, true},
	}
	for _, c := range cases {
		a, err := Compile(c.a)
		if err != nil {
			t.Fatal(err)
		}
		b, err := Compile(c.b)
		if err != nil {
			t.Fatal(err)
		}
		ok, w := Included(a, b)
		if ok != c.ok {
			t.Errorf("%s ⊆ %s: got %v (witness %q) want %v", c.a, c.b, ok, w, c.ok)
		}
		t.Logf("%s ⊆ %s: %v %q", c.a, c.b, ok, w)
	}
}
