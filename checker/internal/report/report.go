// Package report collects obligations and findings of one property check and
// writes the evidence file, the replay files and the verdict lines.
package report

import (
	"encoding/json"
	"fmt"
	"os"
	"path/filepath"
	"regexp"
	"sort"
	"strings"
	"time"
)

// Finding is a failed obligation: a violation, an undecided instance or lost coverage.
type Finding struct {
	Property string   `json:"property"`
	Rule     string   `json:"rule"`
	Kind     string   `json:"kind"` // violation | undecided | coverage-lost
	Key      string   `json:"key"`  // rule | construct — stable across line moves
	Func     string   `json:"function"`
	Pos      string   `json:"position"`
	Msg      string   `json:"message"`
	Detail   []string `json:"detail,omitempty"`
	Config   string   `json:"config,omitempty"`
}

// RuleStat counts the instances one rule examined.
type RuleStat struct {
	Name       string `json:"rule"`
	Doc        string `json:"what_it_decides"`
	Instances  int    `json:"instances"`
	Min        int    `json:"min_confirmed_by_reading"`
	Discharged int    `json:"discharged"`
	Failed     int    `json:"failed"`
}

// Ob is one obligation as shown in the evidence samples.
type Ob struct {
	Rule    string `json:"rule"`
	Site    string `json:"site"`
	Verdict string `json:"verdict"`
	Note    string `json:"note,omitempty"`
}

// Result accumulates everything for one property under one configuration.
type Result struct {
	Property    string
	Config      string
	Findings    []Finding
	Obs         []Ob
	rules       map[string]*RuleStat
	ruleOrder   []string
	Exemptions  []string
	Info        []string
	Extra       map[string]interface{}
	sitesSeen   map[string]bool
	nontrivial  map[string]bool
	Evaluations int
}

func NewResult(prop, config string) *Result {
	return &Result{Property: prop, Config: config, rules: map[string]*RuleStat{}, Extra: map[string]interface{}{}, sitesSeen: map[string]bool{}, nontrivial: map[string]bool{}}
}

// Rule declares a rule with the minimum number of instances confirmed by reading.
func (r *Result) Rule(name, doc string, min int) {
	if _, ok := r.rules[name]; !ok {
		r.rules[name] = &RuleStat{Name: name, Doc: doc, Min: min}
		r.ruleOrder = append(r.ruleOrder, name)
	}
}

func (r *Result) stat(rule string) *RuleStat {
	s, ok := r.rules[rule]
	if !ok {
		r.Rule(rule, "", 0)
		s = r.rules[rule]
	}
	return s
}

// Examined counts a site looked at by a rule without creating an obligation (trivial instance).
func (r *Result) Examined(n int) { r.Evaluations += n }

// Hold records a discharged, non-trivial obligation.
func (r *Result) Hold(rule, site, note string) {
	s := r.stat(rule)
	s.Instances++
	s.Discharged++
	r.Evaluations++
	r.nontrivial[rule+"|"+site] = true
	r.Obs = append(r.Obs, Ob{Rule: rule, Site: site, Verdict: "holds", Note: note})
}

// Fail records a failed obligation.
func (r *Result) Fail(kind, rule, key, fn, pos, msg string, detail ...string) {
	s := r.stat(rule)
	s.Instances++
	s.Failed++
	r.Evaluations++
	site := fn + " @" + pos
	r.nontrivial[rule+"|"+site] = true
	r.Obs = append(r.Obs, Ob{Rule: rule, Site: site, Verdict: kind, Note: msg})
	r.Findings = append(r.Findings, Finding{Property: r.Property, Rule: rule, Kind: kind, Key: rule + " | " + key, Func: fn, Pos: pos, Msg: msg, Detail: detail, Config: r.Config})
}

func (r *Result) Violation(rule, key, fn, pos, msg string, detail ...string) {
	r.Fail("violation", rule, key, fn, pos, msg, detail...)
}
func (r *Result) Undecided(rule, key, fn, pos, msg string, detail ...string) {
	r.Fail("undecided", rule, key, fn, pos, msg, detail...)
}

// Exempt records a tabled exemption that was used, with its reason.
func (r *Result) Exempt(what, reason string) {
	e := what + " — " + reason
	for _, x := range r.Exemptions {
		if x == e {
			return
		}
	}
	r.Exemptions = append(r.Exemptions, e)
}

func (r *Result) Infof(f string, a ...interface{}) { r.Info = append(r.Info, fmt.Sprintf(f, a...)) }

// Finish checks the per-rule minimum instance counts.
func (r *Result) Finish() {
	for _, name := range r.ruleOrder {
		s := r.rules[name]
		if s.Instances < s.Min {
			r.Findings = append(r.Findings, Finding{Property: r.Property, Rule: name, Kind: "coverage-lost",
				Key: name + " | instance-count", Func: "-", Pos: "-", Config: r.Config,
				Msg: fmt.Sprintf("rule matched %d instance(s), fewer than the %d confirmed by reading: the anchored constructs have moved out of the recognised shapes, so the rule would pass vacuously", s.Instances, s.Min)})
			s.Failed++
		}
	}
}

func (r *Result) Rules() []*RuleStat {
	var out []*RuleStat
	for _, n := range r.ruleOrder {
		out = append(out, r.rules[n])
	}
	return out
}

// Known is one entry of known_findings.json.
type Known struct {
	Property string `json:"property"`
	Rule     string `json:"rule"`
	Key      string `json:"key"`
	// Match, when set, is a regular expression a finding's key may match instead of being equal to Key: the same
	// defect seen through a behaviour-preserving move of the call site (the parser function renamed, the mutating call
	// moved into a helper of the same package). It names the same construct, not a wider class.
	Match   string `json:"match,omitempty"`
	Status  string `json:"status"` // known | fixed
	Commit  string `json:"commit,omitempty"`
	What    string `json:"what"`
	Witness string `json:"witness,omitempty"`
}

func LoadKnown(path string) ([]Known, error) {
	b, err := os.ReadFile(path)
	if err != nil {
		if os.IsNotExist(err) {
			return nil, nil
		}
		return nil, err
	}
	var ks []Known
	if err := json.Unmarshal(b, &ks); err != nil {
		return nil, fmt.Errorf("%s: %w", path, err)
	}
	return ks, nil
}

// Meta describes a property for the evidence file.
type Meta struct {
	ID          string
	Explanation string // the clause decided and the clause not decided
	Assumptions []string
	TrustedBase []string
}

// Emit merges the per-configuration results, prints verdict lines, writes evidence and replay files.
// It returns the process exit code.
func Emit(verifDir string, meta Meta, tier string, seed int, results []*Result, known []Known, started time.Time, extra map[string]interface{}) int {
	var all []Finding
	seenKey := map[string]bool{}
	for _, r := range results {
		for _, f := range r.Findings {
			k := f.Kind + "|" + f.Key
			if seenKey[k] {
				continue
			}
			seenKey[k] = true
			all = append(all, f)
		}
	}
	sort.SliceStable(all, func(i, j int) bool { return all[i].Key < all[j].Key })

	knownByKey := map[string]Known{}
	for _, k := range known {
		if k.Property == meta.ID && k.Status == "known" {
			knownByKey[k.Key] = k
		}
	}
	replayDir := filepath.Join(verifDir, "out", "replay")
	os.MkdirAll(replayDir, 0o755)
	// remove stale replay files of this property
	if old, _ := filepath.Glob(filepath.Join(replayDir, meta.ID+"-*.json")); old != nil {
		for _, o := range old {
			os.Remove(o)
		}
	}
	nviol := 0
	var knownHit []string
	lookupKnown := func(key string) (Known, bool) {
		if k, ok := knownByKey[key]; ok {
			return k, true
		}
		for _, k := range knownByKey {
			if k.Match != "" {
				if re, err := regexp.Compile(k.Match); err == nil && re.MatchString(key) {
					return k, true
				}
			}
		}
		return Known{}, false
	}
	for i, f := range all {
		if k, ok := lookupKnown(f.Key); ok && f.Kind == "violation" {
			fmt.Printf("KNOWN-FINDING: property=%s %s [%s at %s] %s\n", meta.ID, k.What, f.Func, f.Pos, f.Key)
			knownHit = append(knownHit, f.Key)
			continue
		}
		nviol++
		path := filepath.Join(replayDir, fmt.Sprintf("%s-%03d.json", meta.ID, i))
		b, _ := json.MarshalIndent(f, "", " ")
		os.WriteFile(path, b, 0o644)
		fmt.Printf("VIOLATION property=%s replay=%s rule=%s kind=%s at=%s func=%s :: %s\n", meta.ID, path, f.Rule, f.Kind, f.Pos, f.Func, f.Msg)
		for _, d := range f.Detail {
			fmt.Printf("    %s\n", d)
		}
	}

	// evidence
	obligations, discharged := 0, 0
	evaluations := 0
	nontriv := map[string]bool{}
	var samples []interface{}
	var rules []interface{}
	var exemptions, info []string
	perCfg := []interface{}{}
	for ci, r := range results {
		evaluations += r.Evaluations
		for k := range r.nontrivial {
			nontriv[k] = true
		}
		for _, s := range r.Rules() {
			obligations += s.Instances
			discharged += s.Discharged
			if ci == 0 {
				rules = append(rules, s)
			}
		}
		if ci == 0 {
			// all obligations of the primary configuration are listed, capped for size
			for i, o := range r.Obs {
				if i >= 400 {
					break
				}
				samples = append(samples, o)
			}
			exemptions = r.Exemptions
			info = r.Info
		}
		perCfg = append(perCfg, map[string]interface{}{"config": r.Config, "obligations": len(r.Obs), "findings": len(r.Findings), "extra": r.Extra})
	}
	if len(samples) == 0 {
		samples = append(samples, "no obligation was generated")
	}
	cov := map[string]interface{}{
		"explanation":         meta.Explanation,
		"obligations":         obligations,
		"discharged":          discharged,
		"evaluations":         evaluations,
		"distinct_nontrivial": len(nontriv),
		"rule":                "one case = one (rule, construct) obligation found by scanning the resolved program (SSA + call graph) of /repo's working tree; it is non-trivial when the rule had something to decide there (a write, a nested Parse call, an index expression, a return, ...); distinct = distinct (rule, function, position) triples",
		"samples":             samples,
		"rules":               rules,
		"exemptions_used":     exemptions,
		"information":         info,
		"configurations":      perCfg,
		"known_findings_hit":  knownHit,
		"checker_cmd":         "bin/pv check -tier " + tier + " " + meta.ID,
		"trusted_base":        meta.TrustedBase,
		"exhaustive":          true,
	}
	for k, v := range extra {
		cov[k] = v
	}
	ev := map[string]interface{}{
		"property_id": meta.ID,
		"tier":        tier,
		"seed":        seed,
		"level":       "other",
		"coverage":    cov,
		"assumptions": meta.Assumptions,
		"wall_s":      time.Since(started).Seconds(),
		"violations":  nviol,
	}
	os.MkdirAll(filepath.Join(verifDir, "evidence"), 0o755)
	b, _ := json.MarshalIndent(ev, "", " ")
	if err := os.WriteFile(filepath.Join(verifDir, "evidence", meta.ID+".json"), b, 0o644); err != nil {
		fmt.Fprintf(os.Stderr, "cannot write evidence: %v\n", err)
		return 2
	}
	fmt.Printf("pv: property=%s tier=%s obligations=%d discharged=%d findings=%d known=%d wall=%.1fs\n", meta.ID, tier, obligations, discharged, nviol, len(knownHit), time.Since(started).Seconds())
	if nviol > 0 {
		return 1
	}
	return 0
}

// Short trims long strings for display.
func Short(s string, n int) string {
	s = strings.Join(strings.Fields(s), " ")
	if len(s) > n {
		return s[:n] + "…"
	}
	return s
}
