package lin

import (
	"go/token"
	"go/types"

	"golang.org/x/tools/go/ssa"

	"pv/internal/ssax"
)

// condAxiom is a library contract that holds where `guard` is known to be non-nil.
type condAxiom struct {
	guardNil ssa.Value // holds where this value is known to be nil (e.g. err == nil)
	guard    ssa.Value
	cons     []Cons
	lazy     func(facts []Cons) []Cons // facts that depend on what is already provable
}

// Prepare scans the function once: induction facts for loop phis, library contracts for call results.
func (f *Fn) Prepare() {
	for _, b := range f.F.Blocks {
		for _, in := range b.Instrs {
			switch x := in.(type) {
			case *ssa.Phi:
				f.phiFact(x)
			case *ssa.Call:
				f.contract(x)
			}
		}
	}
	// induction steps are checked after all contracts are registered; two rounds let one loop variable's fact
	// support another's
	for round := 0; round < 2; round++ {
		n := len(f.Axioms)
		for _, p := range f.pending {
			p()
		}
		if len(f.Axioms) == n {
			break
		}
	}
	f.Axioms = dedupCons(f.Axioms)
}

func dedupCons(cs []Cons) []Cons {
	seen := map[string]bool{}
	var out []Cons
	for _, c := range cs {
		k := c.E.String()
		if c.Ne {
			k = "!" + k
		}
		if seen[k] {
			continue
		}
		seen[k] = true
		out = append(out, c)
	}
	return out
}

// phiFact: one-step induction for loop variables. For a loop-header phi P (an integer, or the length of a
// string/slice) with a single entry value E: if every back edge delivers a value >= P (provable from the facts at
// the edge's source block) then P >= E everywhere; if every back edge delivers a value <= P then P <= E.
func (f *Fn) phiFact(p *ssa.Phi) {
	var me Expr
	exprOf := func(v ssa.Value) Expr { return f.Norm(v) }
	switch t := p.Type().Underlying().(type) {
	case *types.Basic:
		switch {
		case t.Info()&types.IsInteger != 0:
			me = Atom(f.atom(p))
		case t.Info()&types.IsString != 0:
			me = f.LenOf(p)
			exprOf = func(v ssa.Value) Expr { return f.LenOf(v) }
		default:
			return
		}
	case *types.Slice:
		me = f.LenOf(p)
		exprOf = func(v ssa.Value) Expr { return f.LenOf(v) }
	default:
		return
	}
	var bases []Expr
	var backs []int
	for i := range p.Edges {
		if p.Block().Dominates(p.Block().Preds[i]) {
			backs = append(backs, i)
		} else {
			bases = append(bases, exprOf(p.Edges[i]))
		}
	}
	if len(bases) != 1 || len(backs) == 0 {
		return
	}
	f.pending = append(f.pending, func() {
		up, down := true, true
		for _, i := range backs {
			pred := p.Block().Preds[i]
			e := exprOf(p.Edges[i])
			facts := f.FactsAt(pred)
			if !Prove(facts, Ge(e, me, "")) {
				up = false
			}
			if !Prove(facts, Ge(me, e, "")) {
				down = false
			}
		}
		if up {
			f.Axioms = append(f.Axioms, Ge(me, bases[0], "loop variable "+p.Name()+" starts at "+bases[0].String()+" and never decreases"))
			if _, isInt := p.Type().Underlying().(*types.Basic); isInt && me.IsAtom() {
				f.upperBound(p, f.atom(p), bases[0])
			}
		}
		if down {
			f.Axioms = append(f.Axioms, Ge(bases[0], me, "loop variable "+p.Name()+" starts at "+bases[0].String()+" and never increases"))
		}
	})
}

// ElemAtom names the k-th element of an immutable local slice value.
func (f *Fn) ElemAtom(x ssa.Value, k int64) string {
	return f.atom(x) + "[" + itoa(k) + "]"
}

func itoa(k int64) string {
	if k == 0 {
		return "0"
	}
	neg := k < 0
	if neg {
		k = -k
	}
	s := ""
	for k > 0 {
		s = string(rune('0'+k%10)) + s
		k /= 10
	}
	if neg {
		s = "-" + s
	}
	return s
}

var conds = map[*Fn][]condAxiom{}

func calleeName(c *ssa.Call) string {
	if sc := c.Call.StaticCallee(); sc != nil {
		if sc.Signature.Recv() != nil {
			return sc.String()
		}
		if sc.Pkg != nil {
			return sc.Pkg.Pkg.Path() + "." + sc.Name()
		}
	}
	return ""
}

// contract registers what the library contracts of regexp / utf8 / sort say about a call result.
func (f *Fn) contract(c *ssa.Call) {
	name := calleeName(c)
	switch name {
	case "(*regexp.Regexp).FindIndex":
		arg := c.Call.Args[1]
		i0, i1 := Atom(f.ElemAtom(c, 0)), Atom(f.ElemAtom(c, 1))
		conds[f] = append(conds[f], condAxiom{guard: c, cons: append(append(
			Eq(f.LenOf(c), Const(2), "regexp.FindIndex returns a pair when it matches"),
			Ge(i0, Const(0), "regexp.FindIndex: start >= 0"),
			Ge(i1, i0, "regexp.FindIndex: end >= start")),
			Ge(f.LenOf(arg), i1, "regexp.FindIndex: end <= len(input)"))})
	case "(*regexp.Regexp).FindSubmatch":
		arg := c.Call.Args[1]
		m0 := "len(" + f.ElemAtom(c, 0) + ")"
		conds[f] = append(conds[f], condAxiom{guard: c, cons: []Cons{
			Ge(f.LenOf(c), Const(1), "regexp.FindSubmatch returns at least the whole match"),
			Ge(Atom(m0), Const(0), "a length is non-negative"),
			Ge(f.LenOf(arg), Atom(m0), "regexp.FindSubmatch: the whole match lies inside the input"),
		}})
	case "unicode/utf8.DecodeRune", "unicode/utf8.DecodeRuneInString":
		arg := c.Call.Args[0]
		for _, e := range ssax.Extracts(c, 1) {
			w := Atom(f.atom(e))
			f.Axioms = append(f.Axioms, Ge(w, Const(0), "utf8.DecodeRune: width >= 0"), Ge(f.LenOf(arg), w, "utf8.DecodeRune: width <= len(input)"))
			ln := f.LenOf(arg)
			conds[f] = append(conds[f], condAxiom{lazy: func(facts []Cons) []Cons {
				if Prove(facts, Ge(ln, Const(1), "")) {
					return []Cons{Ge(w, Const(1), "utf8.DecodeRune: width >= 1 on non-empty input")}
				}
				return nil
			}})
		}
	case "strconv.UnquoteChar":
		// on success the tail is a proper suffix of the input
		arg := c.Call.Args[0]
		for _, tl := range ssax.Extracts(c, 2) {
			for _, er := range ssax.Extracts(c, 3) {
				conds[f] = append(conds[f], condAxiom{guardNil: er, cons: []Cons{
					Ge(f.LenOf(arg), f.LenOf(tl).Add(Const(1)), "strconv.UnquoteChar: on success at least one byte is consumed"),
				}})
			}
		}
	case "sort.Search", "sort.SearchInts":
		r := Atom(f.atom(c))
		f.Axioms = append(f.Axioms, Ge(r, Const(0), "sort.Search: result >= 0"))
		if name == "sort.Search" {
			f.Axioms = append(f.Axioms, Ge(f.Norm(c.Call.Args[0]), r, "sort.Search: result <= n"))
		} else {
			f.Axioms = append(f.Axioms, Ge(f.LenOf(c.Call.Args[0]), r, "sort.SearchInts: result <= len"))
		}
	}
	if b, ok := c.Call.Value.(*ssa.Builtin); ok && b.Name() == "copy" {
		r := Atom(f.atom(c))
		f.Axioms = append(f.Axioms, Ge(r, Const(0), "copy: n >= 0"), Ge(f.LenOf(c.Call.Args[0]), r, "copy: n <= len(dst)"), Ge(f.LenOf(c.Call.Args[1]), r, "copy: n <= len(src)"))
	}
}

// nonNilAt: block b is dominated by a test establishing v != nil.
func nonNilAt(b *ssa.BasicBlock, v ssa.Value) bool {
	for _, cd := range ssax.DominatingConds(b) {
		bo, ok := cd.Val.(*ssa.BinOp)
		if !ok {
			continue
		}
		var x ssa.Value
		if ssax.IsNilConst(bo.Y) {
			x = bo.X
		} else if ssax.IsNilConst(bo.X) {
			x = bo.Y
		}
		if x != v {
			continue
		}
		if bo.Op == token.NEQ && cd.Truth || bo.Op == token.EQL && !cd.Truth {
			return true
		}
	}
	return false
}

// FactsAt is Facts plus the library contracts applicable at block b.
func (f *Fn) FactsAt(b *ssa.BasicBlock) []Cons {
	facts := f.Facts(b)
	for _, ca := range conds[f] {
		if ca.guard != nil && nonNilAt(b, ca.guard) {
			facts = append(facts, ca.cons...)
		}
		if ca.guardNil != nil && nilAt(b, ca.guardNil) {
			facts = append(facts, ca.cons...)
		}
	}
	for _, ca := range conds[f] {
		if ca.lazy != nil {
			facts = append(facts, ca.lazy(facts)...)
		}
	}
	return facts
}

// NormElem normalises a load of x[k] for constant k of a contract-bearing slice; falls back to Norm.
func (f *Fn) NormElem(v ssa.Value) Expr {
	if u, ok := v.(*ssa.UnOp); ok && u.Op == token.MUL {
		if ia, ok := u.X.(*ssa.IndexAddr); ok {
			if k, isC := ssax.ConstInt(ia.Index); isC {
				if _, isCall := ia.X.(*ssa.Call); isCall {
					return Atom(f.ElemAtom(ia.X, k))
				}
			}
		}
	}
	return f.Norm(v)
}

// upperBound: a counting-up loop variable P = phi(E, P+k) whose every increment happens under a guard P+k <= U
// (U built from parameters and immutable fields only) satisfies P <= U whenever E <= U.
func (f *Fn) upperBound(p *ssa.Phi, me string, base Expr) {
	var cands []Expr
	for i, e := range p.Edges {
		n := f.Norm(e)
		if _, has := n.Coef[me]; !has {
			continue
		}
		pred := p.Block().Preds[i]
		for _, cd := range ssax.DominatingConds(pred) {
			for _, cs := range f.CondCons(cd.Val, cd.Truth) {
				if cs.Ne {
					continue
				}
				if c := cs.E.Coef[me]; c == -1 {
					// U' - P >= 0  with U' = E + P
					u := cs.E.clone()
					delete(u.Coef, me)
					stable := true
					for a := range u.Coef {
						if !stableAtom(a) {
							stable = false
						}
					}
					if stable {
						cands = append(cands, u)
					}
				}
			}
		}
	}
	for _, u := range cands {
		// every increment edge keeps P+k <= U+? : check P_next <= U + 1 is not enough; require P_next <= U' where U' = u + 1 (strict guard P < U' )
		okAll := true
		for i, e := range p.Edges {
			n := f.Norm(e)
			if _, has := n.Coef[me]; !has {
				continue
			}
			pred := p.Block().Preds[i]
			bound := u.Add(Const(1)) // guard P <= u means P < u+1; after +k: need P+k <= u+1 for k = 1
			if !Prove(f.Facts(pred), Ge(bound, n, "")) {
				okAll = false
			}
		}
		if okAll && Prove(f.Axioms, Ge(u.Add(Const(1)), base, "")) {
			f.Axioms = append(f.Axioms, Ge(u.Add(Const(1)), Atom(me), "loop variable "+p.Name()+" is incremented only while it is below "+u.Add(Const(1)).String()))
			return
		}
	}
}

func stableAtom(a string) bool {
	// parameters, captured variables and immutable field paths; not SSA temporaries (t12) or element atoms
	if len(a) > 1 && a[0] == 't' && a[1] >= '0' && a[1] <= '9' {
		return false
	}
	if len(a) > 4 && a[:4] == "len(" {
		return stableAtom(a[4 : len(a)-1])
	}
	for i := 0; i < len(a); i++ {
		if a[i] == '[' {
			return false
		}
	}
	return true
}

// nilAt: block b is dominated by a test establishing v == nil.
func nilAt(b *ssa.BasicBlock, v ssa.Value) bool {
	for _, cd := range ssax.DominatingConds(b) {
		bo, ok := cd.Val.(*ssa.BinOp)
		if !ok {
			continue
		}
		var x ssa.Value
		if ssax.IsNilConst(bo.Y) {
			x = bo.X
		} else if ssax.IsNilConst(bo.X) {
			x = bo.Y
		}
		if x != v {
			continue
		}
		if bo.Op == token.EQL && cd.Truth || bo.Op == token.NEQ && !cd.Truth {
			return true
		}
	}
	return false
}
