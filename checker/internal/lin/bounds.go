package lin

import (
	"go/token"
	"go/types"

	"golang.org/x/tools/go/ssa"

	"pv/internal/ssax"
)

// condAxiom is a library contract that holds where `guard` is known to be non-nil.
type condAxiom struct {
	guard ssa.Value
	cons  []Cons
	lazy  func(facts []Cons) []Cons // facts that depend on what is already provable
}

// Prepare scans the function once: induction facts for loop phis, library contracts for call results.
func (f *Fn) Prepare() {
	for _, b := range f.F.Blocks {
		for _, in := range b.Instrs {
			switch x := in.(type) {
			case *ssa.Phi:
				f.phiFact(x)
			case *ssa.Call:
				f.contract(x)
			}
		}
	}
}

// phiFact: P = phi(E, P+k...) with all k >= 0 gives P >= E (one-step induction); all k <= 0 gives P <= E.
func (f *Fn) phiFact(p *ssa.Phi) {
	if bt, ok := p.Type().Underlying().(*types.Basic); !ok || bt.Info()&types.IsInteger == 0 {
		return
	}
	me := f.atom(p)
	var bases []Expr
	up, down := true, true
	for _, e := range p.Edges {
		n := f.Norm(e)
		if c, has := n.Coef[me]; has {
			rest := n.clone()
			delete(rest.Coef, me)
			if c != 1 || len(rest.Coef) != 0 {
				return // not P + k
			}
			if rest.K < 0 {
				up = false
			}
			if rest.K > 0 {
				down = false
			}
			continue
		}
		// through another phi that merges P itself (e.g. an if inside the loop body): accept P-only phis
		if q, ok := e.(*ssa.Phi); ok && phiOnlyOf(q, p, f) {
			continue
		}
		bases = append(bases, n)
	}
	if len(bases) != 1 {
		return
	}
	if up {
		f.upperBound(p, me, bases[0])
	}
	if up {
		f.Axioms = append(f.Axioms, Ge(Atom(me), bases[0], "loop variable "+p.Name()+" starts at "+bases[0].String()+" and never decreases"))
	}
	if down {
		f.Axioms = append(f.Axioms, Ge(bases[0], Atom(me), "loop variable "+p.Name()+" starts at "+bases[0].String()+" and never increases"))
	}
}

func phiOnlyOf(q, p *ssa.Phi, f *Fn) bool {
	me := f.atom(p)
	for _, e := range q.Edges {
		n := f.Norm(e)
		c, has := n.Coef[me]
		if !has || c != 1 || len(n.Coef) != 1 || n.K < 0 {
			return false
		}
	}
	return true
}

// ElemAtom names the k-th element of an immutable local slice value.
func (f *Fn) ElemAtom(x ssa.Value, k int64) string {
	return f.atom(x) + "[" + itoa(k) + "]"
}

func itoa(k int64) string {
	if k == 0 {
		return "0"
	}
	neg := k < 0
	if neg {
		k = -k
	}
	s := ""
	for k > 0 {
		s = string(rune('0'+k%10)) + s
		k /= 10
	}
	if neg {
		s = "-" + s
	}
	return s
}

var conds = map[*Fn][]condAxiom{}

func calleeName(c *ssa.Call) string {
	if sc := c.Call.StaticCallee(); sc != nil {
		if sc.Signature.Recv() != nil {
			return sc.String()
		}
		if sc.Pkg != nil {
			return sc.Pkg.Pkg.Path() + "." + sc.Name()
		}
	}
	return ""
}

// contract registers what the library contracts of regexp / utf8 / sort say about a call result.
func (f *Fn) contract(c *ssa.Call) {
	name := calleeName(c)
	switch name {
	case "(*regexp.Regexp).FindIndex":
		arg := c.Call.Args[1]
		i0, i1 := Atom(f.ElemAtom(c, 0)), Atom(f.ElemAtom(c, 1))
		conds[f] = append(conds[f], condAxiom{guard: c, cons: append(append(
			Eq(f.LenOf(c), Const(2), "regexp.FindIndex returns a pair when it matches"),
			Ge(i0, Const(0), "regexp.FindIndex: start >= 0"),
			Ge(i1, i0, "regexp.FindIndex: end >= start")),
			Ge(f.LenOf(arg), i1, "regexp.FindIndex: end <= len(input)"))})
	case "(*regexp.Regexp).FindSubmatch":
		arg := c.Call.Args[1]
		m0 := "len(" + f.ElemAtom(c, 0) + ")"
		conds[f] = append(conds[f], condAxiom{guard: c, cons: []Cons{
			Ge(f.LenOf(c), Const(1), "regexp.FindSubmatch returns at least the whole match"),
			Ge(Atom(m0), Const(0), "a length is non-negative"),
			Ge(f.LenOf(arg), Atom(m0), "regexp.FindSubmatch: the whole match lies inside the input"),
		}})
	case "unicode/utf8.DecodeRune", "unicode/utf8.DecodeRuneInString":
		arg := c.Call.Args[0]
		for _, e := range ssax.Extracts(c, 1) {
			w := Atom(f.atom(e))
			f.Axioms = append(f.Axioms, Ge(w, Const(0), "utf8.DecodeRune: width >= 0"), Ge(f.LenOf(arg), w, "utf8.DecodeRune: width <= len(input)"))
			ln := f.LenOf(arg)
			conds[f] = append(conds[f], condAxiom{lazy: func(facts []Cons) []Cons {
				if Prove(facts, Ge(ln, Const(1), "")) {
					return []Cons{Ge(w, Const(1), "utf8.DecodeRune: width >= 1 on non-empty input")}
				}
				return nil
			}})
		}
	case "sort.Search", "sort.SearchInts":
		r := Atom(f.atom(c))
		f.Axioms = append(f.Axioms, Ge(r, Const(0), "sort.Search: result >= 0"))
		if name == "sort.Search" {
			f.Axioms = append(f.Axioms, Ge(f.Norm(c.Call.Args[0]), r, "sort.Search: result <= n"))
		} else {
			f.Axioms = append(f.Axioms, Ge(f.LenOf(c.Call.Args[0]), r, "sort.SearchInts: result <= len"))
		}
	}
	if b, ok := c.Call.Value.(*ssa.Builtin); ok && b.Name() == "copy" {
		r := Atom(f.atom(c))
		f.Axioms = append(f.Axioms, Ge(r, Const(0), "copy: n >= 0"), Ge(f.LenOf(c.Call.Args[0]), r, "copy: n <= len(dst)"), Ge(f.LenOf(c.Call.Args[1]), r, "copy: n <= len(src)"))
	}
}

// nonNilAt: block b is dominated by a test establishing v != nil.
func nonNilAt(b *ssa.BasicBlock, v ssa.Value) bool {
	for _, cd := range ssax.DominatingConds(b) {
		bo, ok := cd.Val.(*ssa.BinOp)
		if !ok {
			continue
		}
		var x ssa.Value
		if ssax.IsNilConst(bo.Y) {
			x = bo.X
		} else if ssax.IsNilConst(bo.X) {
			x = bo.Y
		}
		if x != v {
			continue
		}
		if bo.Op == token.NEQ && cd.Truth || bo.Op == token.EQL && !cd.Truth {
			return true
		}
	}
	return false
}

// FactsAt is Facts plus the library contracts applicable at block b.
func (f *Fn) FactsAt(b *ssa.BasicBlock) []Cons {
	facts := f.Facts(b)
	for _, ca := range conds[f] {
		if ca.guard != nil && nonNilAt(b, ca.guard) {
			facts = append(facts, ca.cons...)
		}
	}
	for _, ca := range conds[f] {
		if ca.lazy != nil {
			facts = append(facts, ca.lazy(facts)...)
		}
	}
	return facts
}

// NormElem normalises a load of x[k] for constant k of a contract-bearing slice; falls back to Norm.
func (f *Fn) NormElem(v ssa.Value) Expr {
	if u, ok := v.(*ssa.UnOp); ok && u.Op == token.MUL {
		if ia, ok := u.X.(*ssa.IndexAddr); ok {
			if k, isC := ssax.ConstInt(ia.Index); isC {
				if _, isCall := ia.X.(*ssa.Call); isCall {
					return Atom(f.ElemAtom(ia.X, k))
				}
			}
		}
	}
	return f.Norm(v)
}

// upperBound: a counting-up loop variable P = phi(E, P+k) whose every increment happens under a guard P+k <= U
// (U built from parameters and immutable fields only) satisfies P <= U whenever E <= U.
func (f *Fn) upperBound(p *ssa.Phi, me string, base Expr) {
	var cands []Expr
	for i, e := range p.Edges {
		n := f.Norm(e)
		if _, has := n.Coef[me]; !has {
			continue
		}
		pred := p.Block().Preds[i]
		for _, cd := range ssax.DominatingConds(pred) {
			for _, cs := range f.CondCons(cd.Val, cd.Truth) {
				if cs.Ne {
					continue
				}
				if c := cs.E.Coef[me]; c == -1 {
					// U' - P >= 0  with U' = E + P
					u := cs.E.clone()
					delete(u.Coef, me)
					stable := true
					for a := range u.Coef {
						if !stableAtom(a) {
							stable = false
						}
					}
					if stable {
						cands = append(cands, u)
					}
				}
			}
		}
	}
	for _, u := range cands {
		// every increment edge keeps P+k <= U+? : check P_next <= U + 1 is not enough; require P_next <= U' where U' = u + 1 (strict guard P < U' )
		okAll := true
		for i, e := range p.Edges {
			n := f.Norm(e)
			if _, has := n.Coef[me]; !has {
				continue
			}
			pred := p.Block().Preds[i]
			bound := u.Add(Const(1)) // guard P <= u means P < u+1; after +k: need P+k <= u+1 for k = 1
			if !Prove(f.Facts(pred), Ge(bound, n, "")) {
				okAll = false
			}
		}
		if okAll && Prove(f.Axioms, Ge(u.Add(Const(1)), base, "")) {
			f.Axioms = append(f.Axioms, Ge(u.Add(Const(1)), Atom(me), "loop variable "+p.Name()+" is incremented only while it is below "+u.Add(Const(1)).String()))
			return
		}
	}
}

func stableAtom(a string) bool {
	// parameters, captured variables and immutable field paths; not SSA temporaries (t12) or element atoms
	if len(a) > 1 && a[0] == 't' && a[1] >= '0' && a[1] <= '9' {
		return false
	}
	if len(a) > 4 && a[:4] == "len(" {
		return stableAtom(a[4 : len(a)-1])
	}
	for i := 0; i < len(a); i++ {
		if a[i] == '[' {
			return false
		}
	}
	return true
}
