// Package lin is the linear-facts engine (DESIGN §2.2-A5): integer SSA values are
// normalised to linear expressions over canonical atoms, the branch conditions that
// dominate a site become linear constraints, and an obligation is discharged by
// refuting its negation with Fourier–Motzkin elimination over the rationals (with
// integer tightening of strict inequalities). Sound, incomplete: an obligation that
// cannot be refuted is reported as undecided by the caller.
package lin

import (
	"fmt"
	"go/constant"
	"go/token"
	"go/types"
	"sort"
	"strings"

	"golang.org/x/tools/go/ssa"

	"pv/internal/ssax"
)

// Expr is  Σ coef[atom]·atom + K.
type Expr struct {
	Coef map[string]int64
	K    int64
}

func Const(k int64) Expr { return Expr{Coef: map[string]int64{}, K: k} }
func Atom(a string) Expr { return Expr{Coef: map[string]int64{a: 1}} }

func (e Expr) clone() Expr {
	c := Expr{Coef: map[string]int64{}, K: e.K}
	for k, v := range e.Coef {
		c.Coef[k] = v
	}
	return c
}

func (e Expr) Add(o Expr) Expr {
	c := e.clone()
	for k, v := range o.Coef {
		c.Coef[k] += v
		if c.Coef[k] == 0 {
			delete(c.Coef, k)
		}
	}
	c.K += o.K
	return c
}

func (e Expr) Scale(m int64) Expr {
	c := Expr{Coef: map[string]int64{}, K: e.K * m}
	if m == 0 {
		return c
	}
	for k, v := range e.Coef {
		c.Coef[k] = v * m
	}
	return c
}

func (e Expr) Sub(o Expr) Expr { return e.Add(o.Scale(-1)) }

func (e Expr) IsConst() bool { return len(e.Coef) == 0 }

// IsAtom: the expression is a single atom with coefficient 1.
func (e Expr) IsAtom() bool {
	if len(e.Coef) != 1 || e.K != 0 {
		return false
	}
	for _, c := range e.Coef {
		return c == 1
	}
	return false
}

func (e Expr) String() string {
	var ks []string
	for k := range e.Coef {
		ks = append(ks, k)
	}
	sort.Strings(ks)
	var parts []string
	for _, k := range ks {
		c := e.Coef[k]
		switch c {
		case 1:
			parts = append(parts, "+"+k)
		case -1:
			parts = append(parts, "-"+k)
		default:
			parts = append(parts, fmt.Sprintf("%+d*%s", c, k))
		}
	}
	if e.K != 0 || len(parts) == 0 {
		parts = append(parts, fmt.Sprintf("%+d", e.K))
	}
	return strings.TrimPrefix(strings.Join(parts, " "), "+")
}

// Cons is a constraint  E >= 0  (Strict: E > 0)  or, with Ne, E != 0.
type Cons struct {
	E   Expr
	Ne  bool
	Why string
}

func Ge(a, b Expr, why string) Cons { return Cons{E: a.Sub(b), Why: why} }                // a >= b
func Gt(a, b Expr, why string) Cons { return Cons{E: a.Sub(b).Add(Const(-1)), Why: why} } // a > b  (integers)
func Eq(a, b Expr, why string) []Cons {
	return []Cons{Ge(a, b, why), Ge(b, a, why)}
}

// Fn holds the per-function normalisation state.
type Fn struct {
	F        *ssa.Function
	atoms    map[ssa.Value]string
	n        int
	Axioms   []Cons            // facts valid everywhere in the function
	lenOf    map[string]string // atom of a slice/string value -> atom of its length (registered lazily)
	DataLen  string            // canonical atom standing for File.len == len(File.data)
	imm      func(path string) bool
	seenPath map[string]bool
	pending  []func()
	// DataSuffix / LenSuffix: a path ending in DataSuffix denotes a byte slice whose length is the path with LenSuffix
	// instead (type invariant established by the constructor), e.g. ".file.data" / ".file.len".
	DataSuffix, LenSuffix string
	// Sub prepares another function of the library with the same configuration (for call summaries).
	Sub   func(*ssa.Function) *Fn
	depth int
	valOf map[string]ssa.Value
}

// New prepares a function. immutable reports whether a field path (e.g. "r.file.len") may be treated as one
// value throughout the function (established by rule W0).
func New(f *ssa.Function, immutable func(path string) bool) *Fn {
	return &Fn{F: f, atoms: map[ssa.Value]string{}, lenOf: map[string]string{}, imm: immutable, seenPath: map[string]bool{}}
}

// fieldPath renders loads of nested fields from a parameter: r.file.len
func fieldPath(v ssa.Value) (string, bool) {
	switch x := v.(type) {
	case *ssa.Parameter:
		return x.Name(), true
	case *ssa.FreeVar:
		return "^" + x.Name(), true
	case *ssa.UnOp:
		if x.Op != token.MUL {
			return "", false
		}
		switch a := x.X.(type) {
		case *ssa.FieldAddr:
			base, ok := fieldPath(a.X)
			if !ok {
				return "", false
			}
			st := a.X.Type().Underlying().(*types.Pointer).Elem().Underlying().(*types.Struct)
			return base + "." + st.Field(a.Field).Name(), true
		case *ssa.FreeVar:
			return "^" + a.Name(), true
		}
	case *ssa.Field:
		base, ok := fieldPath(x.X)
		if !ok {
			return "", false
		}
		st := x.X.Type().Underlying().(*types.Struct)
		return base + "." + st.Field(x.Field).Name(), true
	}
	return "", false
}

// atom returns the canonical atom name of an SSA value.
func (f *Fn) atom(v ssa.Value) string {
	if a, ok := f.atoms[v]; ok {
		return a
	}
	name := ""
	if p, ok := fieldPath(v); ok && (f.imm == nil || f.imm(p)) {
		name = p
	} else {
		name = v.Name()
	}
	f.atoms[v] = name
	if f.valOf == nil {
		f.valOf = map[string]ssa.Value{}
	}
	if _, dup := f.valOf[name]; !dup {
		f.valOf[name] = v
	}
	return name
}

// ProveAt proves goal at block b. When the plain proof fails and the goal mentions a value merged by a phi that is
// not a loop variable, the proof is split over the phi's edges: on the paths through predecessor i the phi equals
// its i-th operand and the facts of that predecessor hold as well.
func (f *Fn) ProveAt(b *ssa.BasicBlock, goal Cons) bool {
	return f.proveSplit(f.FactsAt(b), goal, 0, map[*ssa.Phi]bool{})
}

func (f *Fn) proveSplit(facts []Cons, goal Cons, depth int, done map[*ssa.Phi]bool) bool {
	if Prove(facts, goal) {
		return true
	}
	if depth >= 3 {
		return false
	}
	var atoms []string
	for a := range goal.E.Coef {
		atoms = append(atoms, a)
	}
	sort.Strings(atoms)
	for _, a := range atoms {
		ph, ok := f.valOf[a].(*ssa.Phi)
		if !ok || done[ph] || !isIntType(ph.Type()) {
			continue
		}
		loop := false
		for i := range ph.Edges {
			if ph.Block().Dominates(ph.Block().Preds[i]) {
				loop = true
			}
		}
		if loop {
			continue
		}
		done[ph] = true
		all := true
		for i, e := range ph.Edges {
			fi := append([]Cons{}, facts...)
			fi = append(fi, f.FactsAt(ph.Block().Preds[i])...)
			fi = append(fi, Eq(Atom(a), f.Norm(e), "value of the merged variable on this path")...)
			if !f.proveSplit(fi, goal, depth+1, done) {
				all = false
				break
			}
		}
		delete(done, ph)
		if all {
			return true
		}
	}
	return false
}

func (f *Fn) isFileLenPath(p string) bool {
	return f.LenSuffix != "" && strings.HasSuffix(p, f.LenSuffix)
}
func (f *Fn) isFileDataPath(p string) bool {
	return f.DataSuffix != "" && strings.HasSuffix(p, f.DataSuffix)
}

// LenOf returns the linear expression of len(v) for a slice, string or array-pointer value.
func (f *Fn) LenOf(v ssa.Value) Expr {
	v = ssax.Strip(v)
	// arrays (and pointers to arrays) have a constant length, wherever the value comes from
	switch t := v.Type().Underlying().(type) {
	case *types.Array:
		return Const(t.Len())
	case *types.Pointer:
		if arr, ok := t.Elem().Underlying().(*types.Array); ok {
			return Const(arr.Len())
		}
	}
	switch x := v.(type) {
	case *ssa.Const:
		if x.Value != nil && x.Value.Kind() == constant.String {
			return Const(int64(len(constant.StringVal(x.Value))))
		}
		if x.Value == nil {
			return Const(0)
		}
	case *ssa.Slice:
		var hi, lo Expr
		lo = Const(0)
		if x.Low != nil {
			lo = f.Norm(x.Low)
		}
		if x.High != nil {
			hi = f.Norm(x.High)
		} else {
			hi = f.LenOf(x.X)
		}
		return hi.Sub(lo)
	case *ssa.Convert:
		// string <-> []byte keep the length
		if _, isSl := x.Type().Underlying().(*types.Slice); isSl {
			if b, ok := x.X.Type().Underlying().(*types.Basic); ok && b.Info()&types.IsString != 0 {
				return f.LenOf(x.X)
			}
		}
		if b, ok := x.Type().Underlying().(*types.Basic); ok && b.Info()&types.IsString != 0 {
			if _, isSl := x.X.Type().Underlying().(*types.Slice); isSl {
				return f.LenOf(x.X)
			}
		}
	case *ssa.Alloc:
		if arr, ok := x.Type().Underlying().(*types.Pointer).Elem().Underlying().(*types.Array); ok {
			return Const(arr.Len())
		}
	case *ssa.MakeSlice:
		return f.Norm(x.Len)
	}
	if ex, ok := v.(*ssa.Extract); ok {
		f.summariseExtract(ex)
	}
	if u, ok := v.(*ssa.UnOp); ok && u.Op == token.MUL {
		if ia, ok := u.X.(*ssa.IndexAddr); ok {
			if k, isC := ssax.ConstInt(ia.Index); isC {
				if _, isCall := ia.X.(*ssa.Call); isCall {
					return Atom("len(" + f.ElemAtom(ia.X, k) + ")")
				}
			}
		}
	}
	if p, ok := fieldPath(v); ok && f.isFileDataPath(p) {
		return Atom(strings.TrimSuffix(p, f.DataSuffix) + f.LenSuffix) // type invariant File.len == len(File.data)
	}
	a := "len(" + f.atom(v) + ")"
	if !f.seenPath[a] {
		f.seenPath[a] = true
		f.Axioms = append(f.Axioms, Ge(Atom(a), Const(0), "a length is non-negative"))
	}
	return Atom(a)
}

// Norm normalises an integer SSA value.
func (f *Fn) Norm(v ssa.Value) Expr {
	switch x := v.(type) {
	case *ssa.Const:
		if x.Value != nil && x.Value.Kind() == constant.Int {
			if k, ok := constant.Int64Val(x.Value); ok {
				return Const(k)
			}
		}
	case *ssa.ChangeType:
		return f.Norm(x.X)
	case *ssa.Convert:
		if bi, ok := x.Type().Underlying().(*types.Basic); ok && bi.Info()&types.IsInteger != 0 {
			if bj, ok := x.X.Type().Underlying().(*types.Basic); ok && bj.Info()&types.IsInteger != 0 {
				// widening or same-size integer conversions keep the value; narrowing ones do not
				if sizeOf(bi) >= sizeOf(bj) {
					return f.Norm(x.X)
				}
			}
		}
	case *ssa.BinOp:
		switch x.Op {
		case token.ADD:
			return f.Norm(x.X).Add(f.Norm(x.Y))
		case token.SUB:
			return f.Norm(x.X).Sub(f.Norm(x.Y))
		case token.MUL:
			a, b := f.Norm(x.X), f.Norm(x.Y)
			if a.IsConst() {
				return b.Scale(a.K)
			}
			if b.IsConst() {
				return a.Scale(b.K)
			}
		}
	case *ssa.Call:
		if b, ok := x.Call.Value.(*ssa.Builtin); ok && (b.Name() == "len" || b.Name() == "cap") && len(x.Call.Args) == 1 {
			if b.Name() == "len" {
				return f.LenOf(x.Call.Args[0])
			}
		}
		if e, ok := f.inlineCall(x); ok {
			return e
		}
		f.summariseCall(x)
	}
	if ex, ok := v.(*ssa.Extract); ok {
		f.summariseExtract(ex)
	}
	if u, ok := v.(*ssa.UnOp); ok && u.Op == token.MUL {
		if ia, ok := u.X.(*ssa.IndexAddr); ok {
			if k, isC := ssax.ConstInt(ia.Index); isC {
				if _, isCall := ia.X.(*ssa.Call); isCall {
					return Atom(f.ElemAtom(ia.X, k))
				}
			}
		}
	}
	a := f.atom(v)
	if f.isFileLenPath(a) && !f.seenPath[a] {
		f.seenPath[a] = true
		f.Axioms = append(f.Axioms, Ge(Atom(a), Const(0), "File.len = len(File.data) >= 0"))
	}
	return Atom(a)
}

func sizeOf(b *types.Basic) int {
	switch b.Kind() {
	case types.Int8, types.Uint8:
		return 1
	case types.Int16, types.Uint16:
		return 2
	case types.Int32, types.Uint32:
		return 4
	}
	return 8
}

// CondCons converts a branch condition known to be `truth` into constraints (nil when it is not a linear
// comparison of integers or lengths).
func (f *Fn) CondCons(cond ssa.Value, truth bool) []Cons {
	for {
		u, isNot := cond.(*ssa.UnOp)
		if !isNot || u.Op != token.NOT {
			break
		}
		cond, truth = u.X, !truth
	}
	op, x, y, ok := ssax.CmpOp(cond)
	if !ok {
		// a library predicate with a single comparison as its body (atEOF(cur) = cur >= r.file.len): its condition with
		// the arguments substituted
		if call, isCall := cond.(*ssa.Call); isCall && f.Sub != nil && f.depth < 3 {
			callee := call.Call.StaticCallee()
			if callee != nil && !call.Call.IsInvoke() && len(callee.Blocks) == 1 && callee.Signature.Results().Len() == 1 {
				if ret, isRet := callee.Blocks[0].Instrs[len(callee.Blocks[0].Instrs)-1].(*ssa.Return); isRet && len(ret.Results) == 1 {
					pure := true
					for _, in := range callee.Blocks[0].Instrs {
						switch in.(type) {
						case *ssa.Store, *ssa.MapUpdate, *ssa.Go, *ssa.Defer, *ssa.Panic, *ssa.Send:
							pure = false
						}
					}
					if cf := f.Sub(callee); pure && cf != nil {
						var out []Cons
						for _, cs := range cf.CondCons(ret.Results[0], truth) {
							e, ok := f.substitute(cs.E, callee, call.Call.Args)
							if !ok {
								return nil
							}
							out = append(out, Cons{E: e, Ne: cs.Ne, Why: "predicate " + callee.Name() + ": " + cs.Why})
						}
						return out
					}
				}
			}
		}
		return nil
	}
	if !truth {
		op = ssax.Negate(op)
	}
	why := fmt.Sprintf("branch condition %s is %v", cond.Name(), truth)
	// string comparison with "" : a statement about the length
	if bx, isB := x.Type().Underlying().(*types.Basic); isB && bx.Info()&types.IsString != 0 {
		var s ssa.Value
		if c, isC := y.(*ssa.Const); isC && c.Value != nil && constant.StringVal(c.Value) == "" {
			s = x
		} else if c, isC := x.(*ssa.Const); isC && c.Value != nil && constant.StringVal(c.Value) == "" {
			s = y
		}
		if s == nil {
			return nil
		}
		switch op {
		case token.EQL:
			return Eq(f.LenOf(s), Const(0), why)
		case token.NEQ:
			return []Cons{Ge(f.LenOf(s), Const(1), why)}
		}
		return nil
	}
	if bx, isB := x.Type().Underlying().(*types.Basic); !isB || bx.Info()&types.IsInteger == 0 {
		// nil tests of slices: x == nil  => len(x) == 0
		if _, isSl := x.Type().Underlying().(*types.Slice); isSl && ssax.IsNilConst(y) && op == token.EQL {
			return Eq(f.LenOf(x), Const(0), why)
		}
		return nil
	}
	a, b := f.Norm(x), f.Norm(y)
	switch op {
	case token.EQL:
		return Eq(a, b, why)
	case token.NEQ:
		return []Cons{{E: a.Sub(b), Ne: true, Why: why}}
	case token.LSS:
		return []Cons{Gt(b, a, why)}
	case token.LEQ:
		return []Cons{Ge(b, a, why)}
	case token.GTR:
		return []Cons{Gt(a, b, why)}
	case token.GEQ:
		return []Cons{Ge(a, b, why)}
	}
	return nil
}

// Facts collects the constraints known at block b: axioms plus dominating branch conditions.
func (f *Fn) Facts(b *ssa.BasicBlock) []Cons {
	var out []Cons
	for _, cd := range ssax.DominatingConds(b) {
		out = append(out, f.CondCons(cd.Val, cd.Truth)...)
	}
	out = append(out, f.Axioms...)
	return out
}

// Prove tries to show that goal holds under facts. goal is E >= 0.
func Prove(facts []Cons, goal Cons) bool {
	// refute facts ∧ ¬goal ; ¬(E >= 0)  is  -E - 1 >= 0
	neg := Cons{E: goal.E.Scale(-1).Add(Const(-1))}
	if goal.Ne {
		// goal E != 0: refute E == 0
		all := append(append([]Cons{}, facts...), Cons{E: goal.E}, Cons{E: goal.E.Scale(-1)})
		return refute(all, 0)
	}
	return refute(append(append([]Cons{}, facts...), neg), 0)
}

// refute reports whether the constraint set is infeasible. Disequalities are split in two.
func refute(cs []Cons, depth int) bool {
	for i, c := range cs {
		if c.Ne {
			if depth > 4 {
				// too many splits: drop the disequality (sound: fewer facts)
				rest := append(append([]Cons{}, cs[:i]...), cs[i+1:]...)
				return refute(rest, depth)
			}
			rest := append(append([]Cons{}, cs[:i]...), cs[i+1:]...)
			pos := append(append([]Cons{}, rest...), Cons{E: c.E.Add(Const(-1))})           // E >= 1
			neg := append(append([]Cons{}, rest...), Cons{E: c.E.Scale(-1).Add(Const(-1))}) // E <= -1
			return refute(pos, depth+1) && refute(neg, depth+1)
		}
	}
	return fm(cs)
}

// fm: Fourier–Motzkin elimination; true when a contradiction  k >= 0 with k < 0  is derived.
func fm(cs []Cons) bool {
	rows := make([]Expr, 0, len(cs))
	for _, c := range cs {
		rows = append(rows, c.E)
	}
	for iter := 0; iter < 64; iter++ {
		// contradiction among constants?
		vars := map[string]int{}
		for _, r := range rows {
			if r.IsConst() {
				if r.K < 0 {
					return true
				}
				continue
			}
			for a := range r.Coef {
				vars[a]++
			}
		}
		if len(vars) == 0 {
			return false
		}
		// pick the variable with the fewest pos*neg products
		best, bestCost := "", -1
		for a := range vars {
			p, n := 0, 0
			for _, r := range rows {
				if c := r.Coef[a]; c > 0 {
					p++
				} else if c < 0 {
					n++
				}
			}
			cost := p * n
			if bestCost == -1 || cost < bestCost || cost == bestCost && a < best {
				best, bestCost = a, cost
			}
		}
		var pos, neg, rest []Expr
		for _, r := range rows {
			switch c := r.Coef[best]; {
			case c > 0:
				pos = append(pos, r)
			case c < 0:
				neg = append(neg, r)
			default:
				rest = append(rest, r)
			}
		}
		for _, p := range pos {
			for _, n := range neg {
				cp, cn := p.Coef[best], -n.Coef[best]
				comb := p.Scale(cn).Add(n.Scale(cp))
				delete(comb.Coef, best)
				rest = append(rest, normalise(comb))
			}
		}
		if len(rest) > 4000 {
			return false
		}
		rows = dedup(rest)
	}
	return false
}

func gcd(a, b int64) int64 {
	if a < 0 {
		a = -a
	}
	if b < 0 {
		b = -b
	}
	for b != 0 {
		a, b = b, a%b
	}
	return a
}

// normalise divides by the gcd of the coefficients, rounding the constant down (integer tightening).
func normalise(e Expr) Expr {
	var g int64
	for _, c := range e.Coef {
		g = gcd(g, c)
	}
	if g <= 1 {
		return e
	}
	out := Expr{Coef: map[string]int64{}}
	for k, c := range e.Coef {
		out.Coef[k] = c / g
	}
	// Σ c x + K >= 0  with g | c  =>  Σ (c/g) x + floor(K/g) >= 0
	k := e.K
	q := k / g
	if k%g != 0 && k < 0 {
		q--
	}
	out.K = q
	return out
}

func dedup(rows []Expr) []Expr {
	seen := map[string]bool{}
	var out []Expr
	for _, r := range rows {
		s := r.String()
		if seen[s] {
			continue
		}
		seen[s] = true
		out = append(out, r)
	}
	return out
}
