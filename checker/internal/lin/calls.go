package lin

import (
	"go/types"
	"strings"

	"golang.org/x/tools/go/ssa"
)

// Helper functions extracted by a refactoring must not unsettle the bounds proofs. Two devices:
//  - a call to a library function whose body is a single straight-line integer expression over its parameters
//    (an accessor such as cursor(pos) = int(pos) - r.file.offset) is replaced by that expression;
//  - for any other library function with an integer result, the bounds that hold for EVERY return of the callee
//    (result >= 0, result <= len(parameter), result >=/<= an integer parameter) are proven inside the callee and
//    then assumed at the call site (assume/guarantee).

func isIntType(t types.Type) bool {
	b, ok := t.Underlying().(*types.Basic)
	return ok && b.Info()&types.IsInteger != 0
}

func libCallee(c *ssa.Call) *ssa.Function {
	sc := c.Call.StaticCallee()
	if sc == nil || len(sc.Blocks) == 0 || sc.Signature.Results().Len() != 1 || !isIntType(sc.Signature.Results().At(0).Type()) {
		return nil
	}
	return sc
}

// substitution maps callee atoms to caller expressions.
func (f *Fn) substitute(e Expr, callee *ssa.Function, args []ssa.Value) (Expr, bool) {
	out := Const(e.K)
	for atom, coef := range e.Coef {
		r, ok := f.substAtom(atom, callee, args)
		if !ok {
			return Expr{}, false
		}
		out = out.Add(r.Scale(coef))
	}
	return out, true
}

func (f *Fn) substAtom(atom string, callee *ssa.Function, args []ssa.Value) (Expr, bool) {
	inner := atom
	isLen := false
	if strings.HasPrefix(atom, "len(") && strings.HasSuffix(atom, ")") {
		isLen = true
		inner = atom[4 : len(atom)-1]
	}
	for i, p := range callee.Params {
		if i >= len(args) {
			break
		}
		name := p.Name()
		switch {
		case inner == name:
			if isLen {
				return f.LenOf(args[i]), true
			}
			return f.Norm(args[i]), true
		case strings.HasPrefix(inner, name+"."):
			base, ok := fieldPath(args[i])
			if !ok {
				return Expr{}, false
			}
			path := base + inner[len(name):]
			if isLen {
				if f.isFileDataPath(path) {
					return Atom(strings.TrimSuffix(path, f.DataSuffix) + f.LenSuffix), true
				}
				return Atom("len(" + path + ")"), true
			}
			return Atom(path), true
		}
	}
	return Expr{}, false
}

// inlineCall: the callee is a single block computing an integer expression from parameters and immutable fields.
func (f *Fn) inlineCall(c *ssa.Call) (Expr, bool) {
	callee := libCallee(c)
	if callee == nil || f.Sub == nil || f.depth > 3 || len(callee.Blocks) != 1 {
		return Expr{}, false
	}
	for _, in := range callee.Blocks[0].Instrs {
		switch x := in.(type) {
		case *ssa.Store, *ssa.MapUpdate, *ssa.Go, *ssa.Defer, *ssa.Panic, *ssa.Send:
			return Expr{}, false
		case *ssa.Call:
			if _, isB := x.Call.Value.(*ssa.Builtin); !isB {
				return Expr{}, false
			}
		}
	}
	ret, ok := callee.Blocks[0].Instrs[len(callee.Blocks[0].Instrs)-1].(*ssa.Return)
	if !ok || len(ret.Results) != 1 {
		return Expr{}, false
	}
	cf := f.Sub(callee)
	if cf == nil {
		return Expr{}, false
	}
	return f.substitute(cf.Norm(ret.Results[0]), callee, c.Call.Args)
}

var summarised = map[*Fn]map[ssa.Value]bool{}

// summariseCall proves simple bounds on the callee's result for all its returns and assumes them for this call.
func (f *Fn) summariseCall(c *ssa.Call) {
	if libCallee(c) == nil {
		return
	}
	f.summarise(c, 0, c)
}

// summariseExtract does the same for one integer component of a tuple result.
func (f *Fn) summariseExtract(x *ssa.Extract) {
	c, ok := x.Tuple.(*ssa.Call)
	if !ok {
		return
	}
	sc := c.Call.StaticCallee()
	if sc == nil || len(sc.Blocks) == 0 || c.Call.IsInvoke() || !isIntType(x.Type()) {
		return
	}
	f.summarise(c, x.Index, x)
}

func (f *Fn) summarise(c *ssa.Call, idx int, result ssa.Value) {
	callee := c.Call.StaticCallee()
	if callee == nil || f.Sub == nil || f.depth > 2 {
		return
	}
	if summarised[f] == nil {
		summarised[f] = map[ssa.Value]bool{}
	}
	if summarised[f][result] {
		return
	}
	summarised[f][result] = true
	cf := f.Sub(callee)
	if cf == nil {
		return
	}
	var rets []*ssa.Return
	for _, b := range callee.Blocks {
		if r, ok := b.Instrs[len(b.Instrs)-1].(*ssa.Return); ok {
			rets = append(rets, r)
		}
	}
	if len(rets) == 0 {
		return
	}
	type cand struct {
		lo   bool // result >= bound, else result <= bound
		expr Expr // bound in callee terms
		why  string
	}
	cands := []cand{{true, Const(0), "result >= 0"}}
	for i, p := range callee.Params {
		switch t := p.Type().Underlying().(type) {
		case *types.Slice:
			cands = append(cands, cand{false, cf.LenOf(p), "result <= len(" + p.Name() + ")"})
		case *types.Basic:
			if t.Info()&types.IsString != 0 {
				cands = append(cands, cand{false, cf.LenOf(p), "result <= len(" + p.Name() + ")"})
			}
			if t.Info()&types.IsInteger != 0 {
				cands = append(cands, cand{true, cf.Norm(p), "result >= " + p.Name()}, cand{false, cf.Norm(p), "result <= " + p.Name()})
			}
		case *types.Pointer:
			// the length of the file behind a reader receiver
			if i == 0 && callee.Signature.Recv() != nil && f.LenSuffix != "" {
				if path, ok := fieldPath(p); ok {
					cands = append(cands, cand{false, Atom(path + f.LenSuffix), "result <= " + path + f.LenSuffix})
					// ... and relative to an integer parameter (a width added to a cursor)
					for _, q := range callee.Params[1:] {
						if bt, ok := q.Type().Underlying().(*types.Basic); ok && bt.Info()&types.IsInteger != 0 && isIntType(q.Type()) {
							cands = append(cands, cand{false, Atom(path + f.LenSuffix).Sub(cf.Norm(q)), "result + " + q.Name() + " <= " + path + f.LenSuffix})
						}
					}
				}
			}
		}
	}
	me := Atom(f.atom(result))
	for _, cd := range cands {
		all := true
		for _, r := range rets {
			if idx >= len(r.Results) {
				all = false
				break
			}
			v := cf.Norm(r.Results[idx])
			facts := cf.FactsAt(r.Block())
			var goal Cons
			if cd.lo {
				goal = Ge(v, cd.expr, "")
			} else {
				goal = Ge(cd.expr, v, "")
			}
			if !Prove(facts, goal) {
				all = false
				break
			}
		}
		if !all {
			continue
		}
		b, ok := f.substitute(cd.expr, callee, c.Call.Args)
		if !ok {
			continue
		}
		why := "proven for every return of " + callee.Name() + ": " + cd.why
		if cd.lo {
			f.Axioms = append(f.Axioms, Ge(me, b, why))
		} else {
			f.Axioms = append(f.Axioms, Ge(b, me, why))
		}
	}
}

// Substitute rewrites an expression over the callee's parameters into this function's terms at a call.
func (f *Fn) Substitute(e Expr, callee *ssa.Function, args []ssa.Value) (Expr, bool) {
	return f.substitute(e, callee, args)
}
