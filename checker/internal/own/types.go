// Package own is the ownership / freshness engine (DESIGN §2.2-A2).
//
// For every reference-carrying SSA value it computes a set of origins: where
// the memory the value refers to comes from (allocated in this activation, a
// parameter, a package-level variable, a captured variable, the result of a
// sub-parser, ...), as an access path from that root. Every instruction that
// writes memory is recorded as an Effect on such a location. Effects on
// parameters are summarised per function and translated at call sites until a
// fixpoint is reached.
package own

import (
	"fmt"
	"go/types"
	"sort"
	"strings"

	"golang.org/x/tools/go/ssa"
)

type RootKind uint8

const (
	RFresh    RootKind = iota // allocated in the current activation (or by a callee during it)
	RParam                    // reachable from parameter ID
	RGlobal                   // package-level variable Obj
	RFreeVar                  // captured variable ID
	RParseRes                 // result of a call with the parser signature
	RExtern                   // result of a call into code outside the library or of unknown callees
	RUnknown                  // the engine lost track
)

func (k RootKind) String() string {
	return [...]string{"Fresh", "Param", "Global", "FreeVar", "ParseResult", "Extern", "Unknown"}[k]
}

// Root identifies where a region of memory comes from.
type Root struct {
	K   RootKind
	ID  int    // param index / freevar index / fresh site id
	Obj string // display name: global name, site description
}

// Origin: Addr=true is a pointer to location Root.Path; Addr=false is the value stored at Root.Path.
type Origin struct {
	Root Root
	Path string // ".field" and "[]" and "*" steps; ends with "…" when truncated
	Addr bool
	Clip bool // slice with len == cap: append must reallocate
}

func (o Origin) String() string {
	s := o.Root.K.String()
	switch o.Root.K {
	case RParam, RFreeVar:
		s += fmt.Sprintf("(%s)", o.Root.Obj)
	case RGlobal, RParseRes, RExtern, RFresh, RUnknown:
		if o.Root.Obj != "" {
			s += "(" + o.Root.Obj + ")"
		}
	}
	s += o.Path
	if o.Addr {
		s = "&" + s
	}
	if o.Clip {
		s += "{clipped}"
	}
	return s
}

// Set is a set of origins.
type Set map[Origin]struct{}

func (s Set) Add(o Origin) bool {
	if _, ok := s[o]; ok {
		return false
	}
	s[o] = struct{}{}
	return true
}

func (s Set) AddAll(t Set) bool {
	ch := false
	for o := range t {
		if s.Add(o) {
			ch = true
		}
	}
	return ch
}

func (s Set) Clone() Set {
	c := make(Set, len(s))
	for o := range s {
		c[o] = struct{}{}
	}
	return c
}

func (s Set) Sorted() []Origin {
	out := make([]Origin, 0, len(s))
	for o := range s {
		out = append(out, o)
	}
	sort.Slice(out, func(i, j int) bool { return out[i].String() < out[j].String() })
	return out
}

func (s Set) String() string {
	var parts []string
	for _, o := range s.Sorted() {
		parts = append(parts, o.String())
	}
	return "{" + strings.Join(parts, ", ") + "}"
}

const maxSteps = 5

func steps(path string) []string {
	var out []string
	i := 0
	for i < len(path) {
		j := i + 1
		switch path[i] {
		case '.':
			for j < len(path) && path[j] != '.' && path[j] != '[' && path[j] != '*' && !strings.HasPrefix(path[j:], "…") {
				j++
			}
		case '[':
			j = i + 2
		case '*':
			j = i + 1
		default: // "…"
			j = len(path)
		}
		out = append(out, path[i:j])
		i = j
	}
	return out
}

// extend appends a step to a path with k-limiting.
func extend(path, step string) string {
	if strings.HasSuffix(path, "…") {
		return path
	}
	if step == "" {
		return path
	}
	// cycle collapse: a step that already occurs in the path folds back to its first occurrence, so that
	// recursive structures (.children[].children[]...) are summarised by one finite path
	if step != "*" {
		st := steps(path)
		for i, x := range st {
			if x == step && (step != "[]" || i == len(st)-1) {
				return strings.Join(st[:i+1], "")
			}
		}
	}
	p := path + step
	if len(steps(p)) > maxSteps {
		st := steps(p)
		return strings.Join(st[:maxSteps], "") + "…"
	}
	return p
}

// concat appends a whole sub-path.
func concat(path, rest string) string {
	for _, s := range steps(rest) {
		path = extend(path, s)
	}
	return path
}

// Effect is one write to memory, expressed relative to the function it is reported for.
type Effect struct {
	Root    Root
	Path    string // location written
	Via     string // store | append | copy | mapupdate | delete | extern:<callee>
	Atomic  bool   // the writer is a sync/atomic function
	LocType types.Type
	Owner   *types.Named // struct type owning the field written, if the last step is a field
	Field   string
	ElemOf  types.Type // slice/map/array type whose element is written, if the last step is an element
	Stored  Set        // origins of the stored value in the reporting function's terms (Fresh roots opaque)
	Instr   ssa.Instruction
	In      *ssa.Function // function containing Instr
	Chain   []string      // call chain from the reporting function down to In
}

func (e *Effect) key() string {
	return fmt.Sprintf("%d|%d|%s|%s|%s|%p|%v", e.Root.K, e.Root.ID, e.Root.Obj, e.Path, e.Via, e.Instr, e.Atomic)
}

// Loc renders the written location.
func (e *Effect) Loc() string {
	return Origin{Root: e.Root, Path: e.Path, Addr: true}.String()
}
