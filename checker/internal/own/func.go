package own

import (
	"fmt"
	"go/token"
	"go/types"
	"strings"

	"golang.org/x/tools/go/ssa"

	"pv/internal/ssax"
)

type locKey struct {
	site int
	path string
}

// state is the flow-sensitive content of locally allocated memory.
type state map[locKey]Set

func (s state) clone() state {
	c := make(state, len(s))
	for k, v := range s {
		c[k] = v.Clone()
	}
	return c
}

func (s state) join(t state) bool {
	ch := false
	for k, v := range t {
		if cur, ok := s[k]; ok {
			if cur.AddAll(v) {
				ch = true
			}
		} else {
			s[k] = v.Clone()
			ch = true
		}
	}
	return ch
}

type resInfo struct {
	typ     types.Type
	refRoot bool
	desc    string
}

// site is a fresh allocation site of the function under analysis.
type site struct {
	id      int
	val     ssa.Value  // the allocating instruction (Alloc, MakeSlice, MakeMap, Call, snapshot Load, ...)
	typ     types.Type // type of the location the site's root path "" denotes
	desc    string
	opaque  bool // contents are not tracked (fresh memory handed out by a callee)
	refRoot bool // the origin with path "" is a reference value to the region (make, callee result), not a location
	flowIn  bool // captured by a closure: contents are flow-insensitive
}

// FuncInfo is the result of analysing one function.
type FuncInfo struct {
	Fn       *ssa.Function
	a        *Analysis
	sites    []*site
	siteOf   map[interface{}]int
	val      map[ssa.Value]Set
	tup      map[ssa.Value][]Set
	shared   state // flow-insensitive contents (captured allocs, opaque sites)
	in       map[*ssa.BasicBlock]state
	Effects  map[string]*Effect // own and translated callee effects, in this function's terms
	Results  []Set              // origins of each result (union over returns)
	ResHeap  map[string]Set     // contents reachable from fresh result roots: key "<exportID>|path"
	resSites map[int]int        // local site id -> export id
	resInfo  map[int]resInfo
	Closures map[*ssa.MakeClosure][]Set
	changed  bool
}

func (f *FuncInfo) newSite(key interface{}, v ssa.Value, t types.Type, desc string) *site {
	if id, ok := f.siteOf[key]; ok {
		return f.sites[id]
	}
	s := &site{id: len(f.sites), val: v, typ: t, desc: desc}
	f.sites = append(f.sites, s)
	f.siteOf[key] = s.id
	return s
}

func (f *FuncInfo) freshRoot(s *site) Root { return Root{K: RFresh, ID: s.id, Obj: s.desc} }

func (f *FuncInfo) paramName(i int) string {
	if i < len(f.Fn.Params) {
		return f.Fn.Params[i].Name()
	}
	return fmt.Sprint(i)
}

// valueAt returns the origins of the value stored at root.path in state st.
func (f *FuncInfo) valueAt(st state, r Root, path string, depth int) Set {
	out := Set{}
	if r.K != RFresh {
		out.Add(Origin{Root: r, Path: path})
		return out
	}
	if depth > 8 {
		out.Add(Origin{Root: Root{K: RUnknown, Obj: "deep content chain"}, Path: ""})
		return out
	}
	s := f.sites[r.ID]
	if s.opaque {
		// memory allocated by a callee: contents known only through the exported result heap, kept in shared
		if v, ok := f.lookup(st, s, path, depth); ok {
			return v
		}
		out.Add(Origin{Root: r, Path: path}) // still fresh, contents unknown but freshly allocated by the callee
		return out
	}
	if v, ok := f.lookup(st, s, path, depth); ok {
		return v
	}
	return out // zero value
}

func (f *FuncInfo) get(st state, k locKey) (Set, bool) {
	var res Set
	ok := false
	if v, has := st[k]; has {
		res = v.Clone()
		ok = true
	}
	if v, has := f.shared[k]; has {
		if res == nil {
			res = v.Clone()
		} else {
			res.AddAll(v)
		}
		ok = true
	}
	return res, ok
}

// lookup resolves the value stored at (site, path): exact entry, else through the longest prefix entry,
// else, for composite loads, a snapshot of the sub-locations.
func (f *FuncInfo) lookup(st state, s *site, path string, depth int) (Set, bool) {
	out := Set{}
	found := false
	if v, ok := f.get(st, locKey{s.id, path}); ok {
		out.AddAll(v)
		found = true
	}
	// through a prefix (a composite value or a reference was stored at the prefix)
	sts := steps(path)
	for n := len(sts) - 1; n >= 0 && !found; n-- {
		pre := strings.Join(sts[:n], "")
		v, ok := f.get(st, locKey{s.id, pre})
		if !ok {
			continue
		}
		rest := strings.Join(sts[n:], "")
		for o := range v {
			sub := o.Path
			r := rest
			if o.Addr && strings.HasPrefix(r, "*") {
				r = r[1:]
			}
			out.AddAll(f.valueAt(st, o.Root, concat(sub, r), depth+1))
		}
		found = true
	}
	// sub-locations: the value is a composite assembled field by field
	hasSub := false
	for _, m := range []state{st, f.shared} {
		for k := range m {
			if k.site == s.id && len(k.path) > len(path) && strings.HasPrefix(k.path, path) {
				hasSub = true
			}
		}
	}
	if hasSub {
		// the composite value is denoted symbolically by its location; consumers resolve fields eagerly
		out.Add(Origin{Root: f.freshRoot(s), Path: path})
		found = true
	}
	return out, found
}

// writeLoc performs a store of `val` at root.path (strong when unique) and records the effect.
func (f *FuncInfo) writeLoc(st state, r Root, path string, val Set, strong bool, depth int, rec func(Root, string), isAppend ...bool) {
	if r.K != RFresh {
		rec(r, path)
		return
	}
	if depth > 6 {
		rec(Root{K: RUnknown, Obj: "write through a content chain deeper than 6"}, path)
		return
	}
	s := f.sites[r.ID]
	// does the path cross a reference stored inside the site?
	sts := steps(path)
	t := s.typ
	for n := 0; n < len(sts); n++ {
		pre := strings.Join(sts[:n], "")
		cross := false
		if t != nil {
			switch u := t.Underlying().(type) {
			case *types.Pointer:
				cross = true
				_ = u
			case *types.Slice, *types.Map:
				cross = sts[n] == "[]"
			case *types.Interface, *types.Signature, *types.Chan:
				cross = true
			}
		}
		if cross && !(n == 0 && s.refRoot) {
			// the rest of the path lives behind the reference stored at `pre`
			v, _ := f.lookup(st, s, pre, depth)
			rest := strings.Join(sts[n:], "")
			if len(v) == 0 {
				return // nil reference: the write cannot happen (or panics)
			}
			for o := range v {
				if o.Root.K == RFresh && o.Root.ID == s.id && o.Path == pre && !o.Addr {
					continue // self-reference
				}
				rr := rest
				if o.Addr && strings.HasPrefix(rr, "*") {
					rr = rr[1:]
				}
				if o.Clip && rr == "[]" && len(isAppend) > 0 && isAppend[0] {
					continue // appending to a slice with len == cap reallocates
				}
				f.writeLoc(st, o.Root, concat(o.Path, rr), val, false, depth+1, rec, isAppend...)
			}
			return
		}
		t = stepType(t, sts[n])
	}
	rec(r, path)
	if strings.Contains(path, "[]") {
		strong = false
	}
	k := locKey{s.id, path}
	tgt := st
	if s.flowIn || s.opaque {
		tgt = f.shared
		strong = false
	}
	if strong {
		for kk := range tgt {
			if kk.site == s.id && strings.HasPrefix(kk.path, path) {
				delete(tgt, kk)
			}
		}
		tgt[k] = val.Clone()
		return
	}
	if cur, ok := tgt[k]; ok {
		if cur.AddAll(val) && (s.flowIn || s.opaque) {
			f.changed = true
		}
	} else {
		tgt[k] = val.Clone()
		if s.flowIn || s.opaque {
			f.changed = true
		}
	}
}

// stepType returns the type reached from t by one path step (auto-dereferencing pointers for field steps).
func stepType(t types.Type, step string) types.Type {
	if t == nil {
		return nil
	}
	u := t.Underlying()
	if p, ok := u.(*types.Pointer); ok && step != "*" {
		u = p.Elem().Underlying()
	}
	switch {
	case step == "*":
		if p, ok := u.(*types.Pointer); ok {
			return p.Elem()
		}
		return nil
	case step == "[]":
		switch x := u.(type) {
		case *types.Slice:
			return x.Elem()
		case *types.Array:
			return x.Elem()
		case *types.Map:
			return x.Elem()
		}
		return nil
	case strings.HasPrefix(step, "."):
		if st, ok := u.(*types.Struct); ok {
			for i := 0; i < st.NumFields(); i++ {
				if st.Field(i).Name() == step[1:] {
					return st.Field(i).Type()
				}
			}
		}
	}
	return nil
}

// origins returns the origin set of an SSA value (computed on demand for leaves).
func (f *FuncInfo) origins(v ssa.Value) Set {
	if s, ok := f.val[v]; ok {
		return s
	}
	out := Set{}
	switch x := v.(type) {
	case *ssa.Parameter:
		if ssax.HasRefs(x.Type()) {
			idx := -1
			for i, p := range f.Fn.Params {
				if p == x {
					idx = i
				}
			}
			out.Add(Origin{Root: Root{K: RParam, ID: idx, Obj: x.Name()}})
		}
	case *ssa.FreeVar:
		idx := -1
		for i, p := range f.Fn.FreeVars {
			if p == x {
				idx = i
			}
		}
		// captured variables are pointers to the variable's cell; bound method receivers are values
		if _, isPtr := x.Type().Underlying().(*types.Pointer); isPtr && f.Fn.Synthetic == "" {
			out.Add(Origin{Root: Root{K: RFreeVar, ID: idx, Obj: x.Name()}, Addr: true})
		} else if ssax.HasRefs(x.Type()) {
			out.Add(Origin{Root: Root{K: RFreeVar, ID: idx, Obj: x.Name()}})
		}
	case *ssa.Global:
		name := x.Name()
		if x.Pkg != nil {
			name = f.a.P.Rel(x.Pkg.Pkg.Path()) + "." + x.Name()
		}
		out.Add(Origin{Root: Root{K: RGlobal, Obj: name}, Addr: true})
	case *ssa.Const, *ssa.Function, *ssa.Builtin:
		// no mutable referent
	default:
		// instruction values not yet visited (only possible before the first pass reaches them)
		return out
	}
	f.val[v] = out
	return out
}

func (f *FuncInfo) setVal(v ssa.Value, s Set) {
	cur, ok := f.val[v]
	if !ok {
		f.val[v] = s
		if len(s) > 0 {
			f.changed = true
		}
		return
	}
	if cur.AddAll(s) {
		f.changed = true
	}
}

func (f *FuncInfo) record(e *Effect) {
	k := e.key()
	if old, ok := f.Effects[k]; ok {
		if e.Stored != nil {
			if old.Stored == nil {
				old.Stored = Set{}
			}
			if old.Stored.AddAll(e.Stored) {
				f.changed = true
			}
		}
		return
	}
	f.Effects[k] = e
	f.changed = true
}

// locInfo derives the static description of a written location from the address-producing instruction.
func locInfo(addr ssa.Value) (lt types.Type, owner *types.Named, field string, elemOf types.Type) {
	if p, ok := addr.Type().Underlying().(*types.Pointer); ok {
		lt = p.Elem()
	}
	switch x := addr.(type) {
	case *ssa.FieldAddr:
		st := x.X.Type().Underlying().(*types.Pointer).Elem()
		if n, ok := types.Unalias(st).(*types.Named); ok {
			owner = n
		}
		field = st.Underlying().(*types.Struct).Field(x.Field).Name()
	case *ssa.IndexAddr:
		elemOf = x.X.Type()
		if p, ok := elemOf.Underlying().(*types.Pointer); ok {
			elemOf = p.Elem()
		}
	}
	return
}

// exportStored converts origins of a stored value for use in an effect: fresh roots become opaque markers.
func (f *FuncInfo) exportStored(s Set) Set {
	out := Set{}
	for o := range s {
		if o.Root.K == RFresh {
			out.Add(Origin{Root: Root{K: RFresh, ID: -1, Obj: "callee-allocated"}, Path: "", Addr: false, Clip: o.Clip})
			continue
		}
		out.Add(o)
	}
	return out
}

// transfer interprets one instruction.
func (f *FuncInfo) transfer(st state, in ssa.Instruction) {
	switch x := in.(type) {
	case *ssa.Alloc:
		desc := "local"
		if x.Heap {
			desc = "new"
		}
		if x.Comment != "" {
			desc += " " + x.Comment
		}
		s := f.newSite(x, x, x.Type().Underlying().(*types.Pointer).Elem(), desc)
		if f.a.captured[x] {
			s.flowIn = true
		}
		// a fresh cell on every execution: forget old contents of non-shared sites
		if !s.flowIn {
			for k := range st {
				if k.site == s.id {
					delete(st, k)
				}
			}
		}
		f.setVal(x, Set{Origin{Root: f.freshRoot(s), Addr: true}: {}})
	case *ssa.MakeSlice:
		s := f.newSite(x, x, x.Type(), "make slice")
		s.refRoot = true
		f.setVal(x, Set{Origin{Root: f.freshRoot(s)}: {}})
	case *ssa.MakeMap:
		s := f.newSite(x, x, x.Type(), "make map")
		s.refRoot = true
		f.setVal(x, Set{Origin{Root: f.freshRoot(s)}: {}})
	case *ssa.MakeChan:
		s := f.newSite(x, x, x.Type(), "make chan")
		s.refRoot = true
		f.setVal(x, Set{Origin{Root: f.freshRoot(s)}: {}})
	case *ssa.MakeClosure:
		s := f.newSite(x, x, x.Type(), "closure")
		s.refRoot = true
		var binds []Set
		for _, b := range x.Bindings {
			binds = append(binds, f.origins(b).Clone())
		}
		f.Closures[x] = binds
		f.setVal(x, Set{Origin{Root: f.freshRoot(s)}: {}})
		f.applyClosure(st, x)
	case *ssa.FieldAddr:
		name := x.X.Type().Underlying().(*types.Pointer).Elem().Underlying().(*types.Struct).Field(x.Field).Name()
		out := Set{}
		for o := range f.origins(x.X) {
			out.Add(Origin{Root: o.Root, Path: extend(o.Path, "."+name), Addr: true})
		}
		f.setVal(x, out)
	case *ssa.Field:
		if !ssax.HasRefs(x.Type()) {
			return
		}
		name := x.X.Type().Underlying().(*types.Struct).Field(x.Field).Name()
		out := Set{}
		for o := range f.origins(x.X) {
			out.AddAll(f.valueAt(st, o.Root, extend(o.Path, "."+name), 0))
		}
		f.setVal(x, out)
	case *ssa.IndexAddr:
		out := Set{}
		for o := range f.origins(x.X) {
			out.Add(Origin{Root: o.Root, Path: extend(o.Path, "[]"), Addr: true})
		}
		f.setVal(x, out)
	case *ssa.Index:
		if !ssax.HasRefs(x.Type()) {
			return
		}
		out := Set{}
		for o := range f.origins(x.X) {
			out.AddAll(f.valueAt(st, o.Root, extend(o.Path, "[]"), 0))
		}
		f.setVal(x, out)
	case *ssa.Lookup:
		if _, isMap := x.X.Type().Underlying().(*types.Map); !isMap {
			return
		}
		out := Set{}
		for o := range f.origins(x.X) {
			out.AddAll(f.valueAt(st, o.Root, extend(o.Path, "[]"), 0))
		}
		if x.CommaOk {
			f.setTup(x, 0, out)
		} else if ssax.HasRefs(x.Type()) {
			f.setVal(x, out)
		}
	case *ssa.UnOp:
		if x.Op != token.MUL {
			if x.Op == token.ARROW {
				f.setVal(x, Set{Origin{Root: Root{K: RUnknown, Obj: "channel receive"}}: {}})
			}
			return
		}
		if !ssax.HasRefs(x.Type()) {
			return
		}
		out := Set{}
		for o := range f.origins(x.X) {
			p := o.Path
			if !o.Addr {
				p = extend(p, "*")
			}
			out.AddAll(f.valueAt(st, o.Root, p, 0))
		}
		f.setVal(x, out)
	case *ssa.Store:
		val := Set{}
		if ssax.HasRefs(x.Val.Type()) {
			val = f.origins(x.Val)
		}
		addrs := f.origins(x.Addr)
		lt, owner, field, elemOf := locInfo(x.Addr)
		strong := len(addrs) == 1
		for o := range addrs {
			p := o.Path
			if !o.Addr {
				p = extend(p, "*")
			}
			f.writeLoc(st, o.Root, p, val, strong, 0, func(r Root, path string) {
				f.record(&Effect{Root: r, Path: path, Via: "store", LocType: lt, Owner: owner, Field: field, ElemOf: elemOf, Stored: f.exportStored(val), Instr: x, In: f.Fn})
			})
		}
		if len(addrs) == 0 && f.a.final {
			f.record(&Effect{Root: Root{K: RUnknown, Obj: "store through untracked address"}, Path: "", Via: "store", LocType: lt, Owner: owner, Field: field, ElemOf: elemOf, Instr: x, In: f.Fn})
		}
	case *ssa.MapUpdate:
		val := Set{}
		if ssax.HasRefs(x.Value.Type()) {
			val = f.origins(x.Value)
		}
		ms := f.origins(x.Map)
		for o := range ms {
			f.writeLoc(st, o.Root, extend(o.Path, "[]"), val, false, 0, func(r Root, path string) {
				f.record(&Effect{Root: r, Path: path, Via: "mapupdate", LocType: x.Value.Type(), ElemOf: x.Map.Type(), Stored: f.exportStored(val), Instr: x, In: f.Fn})
			})
		}
		if len(ms) == 0 && f.a.final {
			f.record(&Effect{Root: Root{K: RUnknown, Obj: "update of untracked map"}, Via: "mapupdate", LocType: x.Value.Type(), ElemOf: x.Map.Type(), Instr: x, In: f.Fn})
		}
	case *ssa.Slice:
		out := Set{}
		clip := false
		if x.Max != nil && x.High != nil {
			clip = sameLen(x.Max, x.High)
		}
		for o := range f.origins(x.X) {
			out.Add(Origin{Root: o.Root, Path: o.Path, Addr: false, Clip: clip})
		}
		if _, isStr := x.X.Type().Underlying().(*types.Basic); isStr {
			return
		}
		f.setVal(x, out)
	case *ssa.Convert:
		// string <-> []byte conversions copy
		if _, ok := x.Type().Underlying().(*types.Slice); ok {
			s := f.newSite(x, x, x.Type(), "converted copy")
			s.refRoot = true
			f.setVal(x, Set{Origin{Root: f.freshRoot(s)}: {}})
		} else if ssax.HasRefs(x.Type()) {
			f.setVal(x, f.origins(x.X).Clone())
		}
	case *ssa.ChangeType:
		f.setVal(x, f.origins(x.X).Clone())
	case *ssa.ChangeInterface:
		f.setVal(x, f.origins(x.X).Clone())
	case *ssa.MakeInterface:
		if ssax.HasRefs(x.X.Type()) {
			f.setVal(x, f.origins(x.X).Clone())
		}
	case *ssa.SliceToArrayPointer:
		f.setVal(x, f.origins(x.X).Clone())
	case *ssa.TypeAssert:
		if x.CommaOk {
			f.setTup(x, 0, f.origins(x.X))
		} else if ssax.HasRefs(x.Type()) {
			f.setVal(x, f.origins(x.X).Clone())
		}
	case *ssa.Phi:
		if !ssax.HasRefs(x.Type()) {
			return
		}
		out := Set{}
		for _, e := range x.Edges {
			out.AddAll(f.origins(e))
		}
		f.setVal(x, out)
	case *ssa.Extract:
		if !ssax.HasRefs(x.Type()) {
			return
		}
		if t, ok := f.tup[x.Tuple]; ok && x.Index < len(t) && t[x.Index] != nil {
			f.setVal(x, t[x.Index].Clone())
		}
	case *ssa.Range:
		f.setVal(x, f.origins(x.X).Clone())
	case *ssa.Next:
		if x.IsString {
			return
		}
		out := Set{}
		for o := range f.origins(x.Iter) {
			out.AddAll(f.valueAt(st, o.Root, extend(o.Path, "[]"), 0))
		}
		f.setTup(x, 2, out)
	case *ssa.Select:
		f.setVal(x, Set{Origin{Root: Root{K: RUnknown, Obj: "select"}}: {}})
	case *ssa.Call:
		f.call(st, x)
	case *ssa.Defer:
		f.call(st, x)
	case *ssa.Go:
		f.call(st, x)
	case *ssa.Return:
		f.ret(st, x)
	case *ssa.BinOp, *ssa.If, *ssa.Jump, *ssa.Panic, *ssa.RunDefers, *ssa.DebugRef, *ssa.Send:
		// no reference flow (Send is excluded by U0)
	default:
		if v, ok := in.(ssa.Value); ok && ssax.HasRefs(v.Type()) {
			f.setVal(v, Set{Origin{Root: Root{K: RUnknown, Obj: fmt.Sprintf("unhandled %T", in)}}: {}})
		}
	}
}

func (f *FuncInfo) setTup(v ssa.Value, idx int, s Set) {
	t := f.tup[v]
	for len(t) <= idx {
		t = append(t, nil)
	}
	if t[idx] == nil {
		t[idx] = Set{}
	}
	if t[idx].AddAll(s) {
		f.changed = true
	}
	f.tup[v] = t
}

// sameLen: both values denote the same length (identical SSA value, or len() of the same operand).
func sameLen(a, b ssa.Value) bool {
	if sameValue(a, b) {
		return true
	}
	ca, ok1 := a.(*ssa.Call)
	cb, ok2 := b.(*ssa.Call)
	if ok1 && ok2 {
		ba, ok3 := ca.Call.Value.(*ssa.Builtin)
		bb, ok4 := cb.Call.Value.(*ssa.Builtin)
		if ok3 && ok4 && ba.Name() == "len" && bb.Name() == "len" && sameValue(ca.Call.Args[0], cb.Call.Args[0]) {
			return true
		}
	}
	return false
}

func (f *FuncInfo) ret(st state, r *ssa.Return) {
	for len(f.Results) < len(r.Results) {
		f.Results = append(f.Results, Set{})
	}
	for i, v := range r.Results {
		if !ssax.HasRefs(v.Type()) {
			continue
		}
		for o := range f.origins(v) {
			eo := f.export(st, o, 0)
			if f.Results[i].Add(eo) {
				f.changed = true
			}
		}
	}
}

// export rewrites a fresh-rooted origin into an exported site and copies its contents into ResHeap.
func (f *FuncInfo) export(st state, o Origin, depth int) Origin {
	if o.Root.K != RFresh {
		return o
	}
	s := f.sites[o.Root.ID]
	skey := s.id
	if s.opaque {
		skey = -1 // all memory allocated by callees is merged into one exported site (bounds recursion)
	}
	eid, ok := f.resSites[skey]
	if !ok {
		eid = len(f.resSites)
		f.resSites[skey] = eid
		if s.opaque {
			f.resInfo[eid] = resInfo{typ: nil, refRoot: true, desc: "allocated by callees"}
		} else {
			f.resInfo[eid] = resInfo{typ: s.typ, refRoot: s.refRoot, desc: s.desc}
		}
	}
	if depth < 4 {
		for _, m := range []state{st, f.shared} {
			for k, v := range m {
				if k.site != s.id {
					continue
				}
				key := fmt.Sprintf("%d|%s", eid, k.path)
				cur := f.ResHeap[key]
				if cur == nil {
					cur = Set{}
					f.ResHeap[key] = cur
				}
				for vo := range v {
					if vo.Root.K == RFresh && vo.Root.ID == s.id {
						continue
					}
					if cur.Add(f.export(st, vo, depth+1)) {
						f.changed = true
					}
				}
			}
		}
	}
	return Origin{Root: Root{K: RFresh, ID: eid, Obj: s.desc}, Path: o.Path, Addr: o.Addr, Clip: o.Clip}
}

// run analyses the function body to a local fixpoint.
func (f *FuncInfo) run() {
	fn := f.Fn
	if len(fn.Blocks) == 0 {
		return
	}
	for iter := 0; iter < 50; iter++ {
		f.changed = false
		work := []*ssa.BasicBlock{fn.Blocks[0]}
		inq := map[*ssa.BasicBlock]bool{fn.Blocks[0]: true}
		if f.in[fn.Blocks[0]] == nil {
			f.in[fn.Blocks[0]] = state{}
		}
		visited := map[*ssa.BasicBlock]bool{}
		for len(work) > 0 {
			b := work[0]
			work = work[1:]
			inq[b] = false
			visited[b] = true
			st := f.in[b].clone()
			for _, in := range b.Instrs {
				f.transfer(st, in)
			}
			for _, s := range b.Succs {
				if f.in[s] == nil {
					f.in[s] = st.clone()
					if !inq[s] {
						work = append(work, s)
						inq[s] = true
					}
				} else if f.in[s].join(st) || !visited[s] {
					if !inq[s] {
						work = append(work, s)
						inq[s] = true
					}
				}
			}
		}
		if !f.changed {
			break
		}
		f.a.dirty = true
	}
}

// sameValue: identical SSA values, or two loads of the same address in one block with no store or call between them.
func sameValue(a, b ssa.Value) bool {
	if a == b {
		return true
	}
	la, ok1 := a.(*ssa.UnOp)
	lb, ok2 := b.(*ssa.UnOp)
	if !ok1 || !ok2 || la.Op != token.MUL || lb.Op != token.MUL || la.X != lb.X || la.Block() != lb.Block() {
		return false
	}
	i, j := ssax.InstrIndex(la), ssax.InstrIndex(lb)
	if i > j {
		i, j = j, i
	}
	for _, in := range la.Block().Instrs[i:j] {
		switch c := in.(type) {
		case *ssa.Store, *ssa.MapUpdate, *ssa.Defer, *ssa.Go:
			return false
		case *ssa.Call:
			if _, isB := c.Call.Value.(*ssa.Builtin); !isB {
				return false
			}
		}
	}
	return true
}
