package own

import (
	"fmt"
	"go/types"
	"strings"

	"golang.org/x/tools/go/ssa"

	"pv/internal/ssax"
)

// externPure lists packages outside the library whose functions never write through their arguments,
// except for the names listed in externWriters.
var externPure = map[string]bool{
	"errors": true, "fmt": true, "strconv": true, "strings": true, "bytes": true, "regexp": true,
	"unicode/utf8": true, "unicode": true, "sort": true, "time": true, "math": true, "io/ioutil": true, "os": true,
	"unicode/utf16": true, "math/bits": true, "path/filepath": true, "path": true,
}

// externWriters: functions of the packages above (and of sync/atomic) that write through argument i.
// value: indexes of pointer/slice arguments written.
var externWriters = map[string][]int{
	"errors.As":               {1},
	"sort.Ints":               {0},
	"sort.Strings":            {0},
	"sort.Float64s":           {0},
	"sort.Slice":              {0},
	"sort.SliceStable":        {0},
	"sort.Sort":               {0},
	"sort.Stable":             {0},
	"strconv.AppendInt":       {0},
	"strconv.AppendQuote":     {0},
	"unicode/utf8.EncodeRune": {0},
	"unicode/utf8.AppendRune": {0},
	"fmt.Sscan":               {1},
	"fmt.Sscanf":              {2},
	"fmt.Fprintf":             {0},
	"fmt.Fprint":              {0},
	"fmt.Fprintln":            {0},
}

// externFresh: functions outside the library whose results are new memory, never aliasing their arguments.
var externFresh = map[string]bool{
	"bytes.Replace": true, "bytes.ReplaceAll": true, "bytes.ToLower": true, "bytes.ToUpper": true, "bytes.Repeat": true,
	"bytes.Join": true, "bytes.Clone": true, "bytes.Map": true, "errors.New": true, "fmt.Errorf": true, "fmt.Sprintf": true,
	"fmt.Sprint": true, "regexp.MustCompile": true, "regexp.Compile": true, "io/ioutil.ReadFile": true, "os.ReadFile": true,
	"strconv.Quote": true, "strings.ToUpper": true, "strings.ToLower": true,
}

func externName(fn *ssa.Function) string {
	if fn.Pkg != nil {
		if fn.Signature.Recv() != nil {
			return fn.String()
		}
		return fn.Pkg.Pkg.Path() + "." + fn.Name()
	}
	return fn.String()
}

func (f *FuncInfo) argSets(args []ssa.Value) []Set {
	out := make([]Set, len(args))
	for i, a := range args {
		if ssax.HasRefs(a.Type()) {
			out[i] = f.origins(a)
		} else {
			out[i] = Set{}
		}
	}
	return out
}

// call interprets a call instruction.
func (f *FuncInfo) call(st state, c ssa.CallInstruction) {
	cc := c.Common()
	var cv ssa.Value
	if v, ok := c.(ssa.Value); ok {
		cv = v
	}
	if b, ok := cc.Value.(*ssa.Builtin); ok && !cc.IsInvoke() {
		f.builtin(st, c, cv, b)
		return
	}
	// actual arguments in callee parameter order
	var actuals []ssa.Value
	if cc.IsInvoke() {
		actuals = append([]ssa.Value{cc.Value}, cc.Args...)
	} else {
		actuals = cc.Args
	}
	args := f.argSets(actuals)
	nres := 0
	var resTypes *types.Tuple
	if sig := ssax.CallSig(c); sig != nil {
		resTypes = sig.Results()
		nres = resTypes.Len()
	}
	results := make([]Set, nres)
	for i := range results {
		results[i] = Set{}
	}
	isParse := ssax.IsParseCall(c)

	callees := f.a.P.Callees(f.Fn, c)
	if sc := cc.StaticCallee(); sc != nil {
		callees = []*ssa.Function{sc}
	}
	libCallees := 0
	for _, callee := range callees {
		ci := f.a.Info[callee]
		if ci == nil {
			if f.a.P.InLib(callee) && len(callee.Blocks) == 0 {
				continue
			}
			if f.a.isFake(callee) {
				continue
			}
			// callee outside the library. Only statically named functions get the conservative "may write through its
			// pointer arguments" treatment; methods reached through an interface (error.Error, fmt.Stringer, user
			// parsers/interpreters) are covered by A-user / A-lib: they do not mutate their receivers or arguments
			if cc.IsInvoke() || cc.StaticCallee() == nil {
				continue
			}
			f.extern(st, c, callee, actuals, args, results)
			continue
		}
		libCallees++
		cargs := args
		if callee.Signature.Recv() == nil && len(callee.FreeVars) > 0 && len(callee.Params) == len(cc.Args) {
			cargs = f.argSets(cc.Args)
		} else if len(callee.Params) != len(actuals) {
			// bound-method closures and thunks: align from the right
			if len(callee.Params) < len(actuals) {
				cargs = args[len(actuals)-len(callee.Params):]
			}
		}
		f.applySummary(st, c, ci, cargs, results, isParse)
	}
	if isParse {
		// results of a sub-parser: a node (list) owned by whoever produced it
		for i := range results {
			results[i] = Set{Origin{Root: Root{K: RParseRes, Obj: f.a.P.InstrPos(c)}}: {}}
		}
	} else if libCallees == 0 && cc.StaticCallee() == nil || (cc.StaticCallee() == nil && f.mayBeUser(c)) {
		// interface method or function value that user code can supply (A-user: no writes to arguments)
		for i := range results {
			if resTypes != nil && ssax.HasRefs(resTypes.At(i).Type()) {
				results[i].Add(Origin{Root: Root{K: RExtern, Obj: "result of " + callDesc(c)}})
			}
		}
	}
	if cv == nil {
		return
	}
	switch nres {
	case 0:
	case 1:
		if ssax.HasRefs(cv.Type()) {
			f.setVal(cv, results[0])
		}
	default:
		for i, r := range results {
			f.setTup(cv, i, r)
		}
	}
}

func callDesc(c ssa.CallInstruction) string {
	cc := c.Common()
	if cc.IsInvoke() {
		return "invoke " + cc.Method.Name()
	}
	if sc := cc.StaticCallee(); sc != nil {
		return sc.Name()
	}
	return "dynamic call " + cc.Value.Name()
}

// mayBeUser: a dynamic call whose callee can be supplied by code outside the library.
func (f *FuncInfo) mayBeUser(c ssa.CallInstruction) bool {
	cc := c.Common()
	if cc.IsInvoke() {
		// interface declared in the library and exported, or any interface: users can implement it
		return true
	}
	// function value: if it is a closure created locally it is not user code
	for _, l := range ssax.Leaves(cc.Value) {
		switch l.(type) {
		case *ssa.MakeClosure, *ssa.Function:
		default:
			return true
		}
	}
	return false
}

func (f *FuncInfo) builtin(st state, c ssa.CallInstruction, cv ssa.Value, b *ssa.Builtin) {
	args := c.Common().Args
	switch b.Name() {
	case "append":
		x := f.origins(args[0])
		elems := Set{}
		elemHasRefs := false
		if sl, ok := args[0].Type().Underlying().(*types.Slice); ok {
			elemHasRefs = ssax.HasRefs(sl.Elem())
		}
		if len(args) > 1 && elemHasRefs {
			for o := range f.origins(args[1]) {
				elems.AddAll(f.valueAt(st, o.Root, extend(o.Path, "[]"), 0))
			}
		}
		s := f.newSite(c, cv, args[0].Type(), "append result")
		s.refRoot = true
		out := Set{Origin{Root: f.freshRoot(s)}: {}}
		for o := range x {
			out.Add(o)
			if elemHasRefs {
				f.writeLoc(st, f.freshRoot(s), "[]", f.valueAt(st, o.Root, extend(o.Path, "[]"), 0), false, 0, func(Root, string) {})
			}
			if o.Clip {
				continue // len == cap: append reallocates, the shared array is not written
			}
			f.writeLoc(st, o.Root, extend(o.Path, "[]"), elems, false, 0, func(r Root, path string) {
				var et types.Type
				if sl, ok := args[0].Type().Underlying().(*types.Slice); ok {
					et = sl.Elem()
				}
				f.record(&Effect{Root: r, Path: path, Via: "append", LocType: et, ElemOf: args[0].Type(), Stored: f.exportStored(elems), Instr: c, In: f.Fn})
			})
		}
		if elemHasRefs {
			f.writeLoc(st, f.freshRoot(s), "[]", elems, false, 0, func(Root, string) {})
		}
		f.setVal(cv, out)
	case "copy":
		elems := Set{}
		if sl, ok := args[0].Type().Underlying().(*types.Slice); ok && ssax.HasRefs(sl.Elem()) {
			for o := range f.origins(args[1]) {
				elems.AddAll(f.valueAt(st, o.Root, extend(o.Path, "[]"), 0))
			}
		}
		for o := range f.origins(args[0]) {
			f.writeLoc(st, o.Root, extend(o.Path, "[]"), elems, false, 0, func(r Root, path string) {
				var et types.Type
				if sl, ok := args[0].Type().Underlying().(*types.Slice); ok {
					et = sl.Elem()
				}
				f.record(&Effect{Root: r, Path: path, Via: "copy", LocType: et, ElemOf: args[0].Type(), Stored: f.exportStored(elems), Instr: c, In: f.Fn})
			})
		}
	case "delete", "clear":
		for o := range f.origins(args[0]) {
			f.writeLoc(st, o.Root, extend(o.Path, "[]"), Set{}, false, 0, func(r Root, path string) {
				f.record(&Effect{Root: r, Path: path, Via: b.Name(), ElemOf: args[0].Type(), Instr: c, In: f.Fn})
			})
		}
	case "recover":
		if cv != nil {
			f.setVal(cv, Set{Origin{Root: Root{K: RExtern, Obj: "recover()"}}: {}})
		}
	}
}

// extern handles a call to a function outside the library.
func (f *FuncInfo) extern(st state, c ssa.CallInstruction, callee *ssa.Function, actuals []ssa.Value, args []Set, results []Set) {
	name := externName(callee)
	pkg := ""
	if callee.Pkg != nil {
		pkg = callee.Pkg.Pkg.Path()
	} else if o := callee.Object(); o != nil && o.Pkg() != nil {
		pkg = o.Pkg().Path()
	}
	atomic := pkg == "sync/atomic"
	writes, listed := externWriters[name]
	switch {
	case atomic:
		writes = []int{0}
	case listed:
	case externPure[pkg]:
	default:
		// unknown callee: assume it may write through every pointer, slice or map argument
		for i, a := range actuals {
			switch a.Type().Underlying().(type) {
			case *types.Pointer, *types.Slice, *types.Map:
				writes = append(writes, i)
			case *types.Interface:
				writes = append(writes, i)
			}
		}
	}
	for _, i := range writes {
		if i >= len(args) {
			continue
		}
		for o := range args[i] {
			p := o.Path
			if !o.Addr {
				if _, isPtr := actuals[i].Type().Underlying().(*types.Pointer); isPtr || isIface(actuals[i].Type()) {
					p = extend(p, "*")
				} else {
					p = extend(p, "[]")
				}
			}
			f.writeLoc(st, o.Root, p, Set{Origin{Root: Root{K: RExtern, Obj: "stored by " + name}}: {}}, false, 0, func(r Root, path string) {
				f.record(&Effect{Root: r, Path: path, Via: "extern:" + name, Atomic: atomic, Instr: c, In: f.Fn})
			})
		}
	}
	// results may alias the reference arguments or be new
	for i := range results {
		results[i].Add(Origin{Root: Root{K: RExtern, Obj: "result of " + name}})
		if externFresh[name] {
			continue
		}
		for j, a := range args {
			if _, isSig := actuals[j].Type().Underlying().(*types.Signature); isSig {
				continue
			}
			for o := range a {
				if o.Addr {
					results[i].Add(o)
				} else {
					results[i].Add(Origin{Root: o.Root, Path: extend(o.Path, "…"), Addr: false})
					results[i].Add(o)
				}
			}
		}
	}
}

func isIface(t types.Type) bool {
	_, ok := t.Underlying().(*types.Interface)
	return ok
}

// instOpaque creates (or finds) the caller-side site for memory allocated by a callee.
func (f *FuncInfo) instOpaque(c ssa.Instruction, callee *ssa.Function, eid int, desc string, typ types.Type, refRoot bool) *site {
	type k struct {
		c      ssa.Instruction
		callee *ssa.Function
		eid    int
	}
	var v ssa.Value
	if vv, ok := c.(ssa.Value); ok {
		v = vv
	}
	s := f.newSite(k{c, callee, eid}, v, typ, "allocated by "+f.a.P.Name(callee)+": "+desc)
	s.opaque = true
	s.refRoot = refRoot
	return s
}

// translate maps an origin in callee terms to the caller.
func (f *FuncInfo) translate(st state, c ssa.Instruction, ci *FuncInfo, o Origin, args []Set) Set {
	out := Set{}
	switch o.Root.K {
	case RParam:
		if o.Root.ID < 0 || o.Root.ID >= len(args) {
			out.Add(Origin{Root: Root{K: RUnknown, Obj: "parameter mismatch"}})
			return out
		}
		for a := range args[o.Root.ID] {
			rest := o.Path
			if a.Addr && strings.HasPrefix(rest, "*") {
				rest = rest[1:]
			}
			switch {
			case o.Addr:
				// a pointer into the actual's region
				out.Add(Origin{Root: a.Root, Path: concat(a.Path, rest), Addr: true})
			case o.Path == "":
				// the parameter value itself
				out.Add(Origin{Root: a.Root, Path: a.Path, Addr: a.Addr, Clip: a.Clip || o.Clip})
			default:
				// the value stored at a location reached from the parameter
				for v := range f.valueAt(st, a.Root, concat(a.Path, rest), 0) {
					if o.Clip {
						v.Clip = true
					}
					out.Add(v)
				}
			}
		}
	case RFresh:
		if o.Root.ID < 0 {
			s := f.instOpaque(c, ci.Fn, -1, "callee-allocated", nil, true)
			out.Add(Origin{Root: f.freshRoot(s), Path: o.Path, Addr: o.Addr, Clip: o.Clip})
			return out
		}
		inf := ci.resInfo[o.Root.ID]
		s := f.instOpaque(c, ci.Fn, o.Root.ID, inf.desc, inf.typ, inf.refRoot)
		out.Add(Origin{Root: f.freshRoot(s), Path: o.Path, Addr: o.Addr, Clip: o.Clip})
	case RFreeVar:
		// a closure's captured variable seen from a caller: resolved where the closure is created
		out.Add(Origin{Root: Root{K: RUnknown, Obj: "captured variable " + o.Root.Obj + " of " + f.a.P.Name(ci.Fn)}, Path: o.Path})
	default:
		out.Add(o)
	}
	return out
}

func (f *FuncInfo) translateSet(st state, c ssa.Instruction, ci *FuncInfo, s Set, args []Set) Set {
	out := Set{}
	for o := range s {
		out.AddAll(f.translate(st, c, ci, o, args))
	}
	return out
}

// applySummary applies a library callee's effects and results at a call site.
func (f *FuncInfo) applySummary(st state, c ssa.CallInstruction, ci *FuncInfo, args []Set, results []Set, isParse bool) {
	// result heap first, so that contents are available to later loads
	for key, vals := range ci.ResHeap {
		bar := strings.IndexByte(key, '|')
		var eid int
		fmt.Sscanf(key[:bar], "%d", &eid)
		path := key[bar+1:]
		inf := ci.resInfo[eid]
		s := f.instOpaque(c, ci.Fn, eid, inf.desc, inf.typ, inf.refRoot)
		tv := f.translateSet(st, c, ci, vals, args)
		k := locKey{s.id, path}
		if cur, ok := f.shared[k]; ok {
			if cur.AddAll(tv) {
				f.changed = true
			}
		} else {
			f.shared[k] = tv
			f.changed = true
		}
	}
	for _, e := range ci.sortedEffects() {
		if e.Root.K != RParam {
			continue
		}
		if e.Root.ID >= len(args) {
			continue
		}
		stored := Set{}
		if e.Stored != nil {
			stored = f.translateSet(st, c, ci, e.Stored, args)
		}
		for a := range args[e.Root.ID] {
			rest := e.Path
			if a.Addr && strings.HasPrefix(rest, "*") {
				rest = rest[1:]
			}
			if a.Clip && e.Via == "append" && rest == "[]" {
				continue
			}
			ee := e
			f.writeLoc(st, a.Root, concat(a.Path, rest), stored, false, 0, func(r Root, path string) {
				chain := append([]string{f.a.P.Name(ci.Fn) + " @" + f.a.P.InstrPos(c)}, ee.Chain...)
				if len(chain) > 8 {
					chain = chain[:8]
				}
				f.record(&Effect{Root: r, Path: path, Via: ee.Via, Atomic: ee.Atomic, LocType: ee.LocType, Owner: ee.Owner, Field: ee.Field, ElemOf: ee.ElemOf,
					Stored: f.exportStored(stored), Instr: ee.Instr, In: ee.In, Chain: chain})
			}, ee.Via == "append")
		}
	}
	if isParse {
		return
	}
	for i := range results {
		if i < len(ci.Results) {
			results[i].AddAll(f.translateSet(st, c, ci, ci.Results[i], args))
		}
	}
}

// applyClosure attributes the captured-variable effects of a closure to the function creating it.
func (f *FuncInfo) applyClosure(st state, mc *ssa.MakeClosure) {
	fn, ok := mc.Fn.(*ssa.Function)
	if !ok {
		return
	}
	ci := f.a.Info[fn]
	if ci == nil {
		return
	}
	binds := f.Closures[mc]
	for _, e := range ci.sortedEffects() {
		if e.Root.K != RFreeVar || e.Root.ID >= len(binds) {
			continue
		}
		stored := Set{}
		for o := range e.Stored {
			switch o.Root.K {
			case RFreeVar:
				if o.Root.ID < len(binds) {
					for b := range binds[o.Root.ID] {
						rest := o.Path
						if b.Addr && strings.HasPrefix(rest, "*") {
							rest = rest[1:]
						}
						stored.AddAll(f.valueAt(st, b.Root, concat(b.Path, rest), 0))
					}
				}
			case RParam:
				stored.Add(Origin{Root: Root{K: RExtern, Obj: "argument of closure " + f.a.P.Name(fn)}})
			case RFresh:
				s := f.instOpaque(mc, fn, -1, "callee-allocated", nil, true)
				stored.Add(Origin{Root: f.freshRoot(s), Path: o.Path, Addr: o.Addr})
			default:
				stored.Add(o)
			}
		}
		for b := range binds[e.Root.ID] {
			rest := e.Path
			if b.Addr && strings.HasPrefix(rest, "*") {
				rest = rest[1:]
			}
			ee := e
			f.writeLoc(st, b.Root, concat(b.Path, rest), stored, false, 0, func(r Root, path string) {
				if r.K == RFresh {
					return // the closure writes a variable of this activation
				}
				chain := append([]string{"closure " + f.a.P.Name(fn) + " @" + f.a.P.InstrPos(mc)}, ee.Chain...)
				f.record(&Effect{Root: r, Path: path, Via: ee.Via, Atomic: ee.Atomic, LocType: ee.LocType, Owner: ee.Owner, Field: ee.Field, ElemOf: ee.ElemOf,
					Stored: f.exportStored(stored), Instr: ee.Instr, In: ee.In, Chain: chain})
			})
		}
	}
}
