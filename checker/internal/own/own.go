package own

import (
	"fmt"
	"os"
	"sort"
	"strings"
	"time"

	"golang.org/x/tools/go/ssa"

	"pv/internal/load"
)

// Analysis is the whole-library result.
type Analysis struct {
	P        *load.Prog
	Info     map[*ssa.Function]*FuncInfo
	captured map[*ssa.Alloc]bool
	dirty    bool
	final    bool // after convergence: writes through untracked (empty-origin) addresses are recorded
	Rounds   int
}

func (a *Analysis) isFake(fn *ssa.Function) bool {
	tp := load.PkgOf(fn)
	if tp == nil {
		return false
	}
	for _, f := range a.P.Fakes {
		if tp.Path() == f {
			return true
		}
	}
	return false
}

func (f *FuncInfo) sortedEffects() []*Effect {
	keys := make([]string, 0, len(f.Effects))
	for k := range f.Effects {
		keys = append(keys, k)
	}
	sort.Strings(keys)
	out := make([]*Effect, 0, len(keys))
	for _, k := range keys {
		out = append(out, f.Effects[k])
	}
	return out
}

// SortedEffects returns the effects of the function in a deterministic order.
func (f *FuncInfo) SortedEffects() []*Effect { return f.sortedEffects() }

// Origins returns the origins computed for an SSA value of the function.
func (f *FuncInfo) Origins(v ssa.Value) Set { return f.origins(v) }

// TupleOrigins returns the origins of component idx of a tuple value.
func (f *FuncInfo) TupleOrigins(v ssa.Value, idx int) Set {
	t := f.tup[v]
	if idx < len(t) && t[idx] != nil {
		return t[idx]
	}
	return Set{}
}

// Analyze runs the engine over all library functions to a global fixpoint.
func Analyze(p *load.Prog) *Analysis {
	a := &Analysis{P: p, Info: map[*ssa.Function]*FuncInfo{}, captured: map[*ssa.Alloc]bool{}}
	for _, fn := range p.LibFuncs {
		for _, b := range fn.Blocks {
			for _, in := range b.Instrs {
				if mc, ok := in.(*ssa.MakeClosure); ok {
					for _, bv := range mc.Bindings {
						if al, ok := bv.(*ssa.Alloc); ok {
							a.captured[al] = true
						}
					}
				}
			}
		}
	}
	for _, fn := range p.LibFuncs {
		a.Info[fn] = &FuncInfo{Fn: fn, a: a, siteOf: map[interface{}]int{}, val: map[ssa.Value]Set{}, tup: map[ssa.Value][]Set{},
			shared: state{}, in: map[*ssa.BasicBlock]state{}, Effects: map[string]*Effect{}, ResHeap: map[string]Set{},
			resSites: map[int]int{}, resInfo: map[int]resInfo{}, Closures: map[*ssa.MakeClosure][]Set{}}
	}
	for round := 0; round < 40; round++ {
		a.dirty = false
		for _, fn := range p.LibFuncs {
			t0 := time.Now()
			a.Info[fn].run()
			if os.Getenv("PV_DEBUG") != "" && time.Since(t0) > 200*time.Millisecond {
				fi := a.Info[fn]
				fmt.Fprintf(os.Stderr, "round %d %s: %v sites=%d effects=%d resheap=%d shared=%d\n", round, p.Name(fn), time.Since(t0), len(fi.sites), len(fi.Effects), len(fi.ResHeap), len(fi.shared))
			}
		}
		if os.Getenv("PV_DEBUG") != "" {
			fmt.Fprintf(os.Stderr, "round %d done dirty=%v\n", round, a.dirty)
		}
		a.Rounds = round + 1
		if !a.dirty {
			break
		}
	}
	conv := !a.dirty
	a.final = true
	for _, fn := range p.LibFuncs {
		a.Info[fn].run()
	}
	a.dirty = !conv
	return a
}

// Converged reports whether the fixpoint was reached within the round limit.
func (a *Analysis) Converged() bool { return !a.dirty }

// ResolveFreeVar maps a captured-variable root of closure fn to the origins bound at its creation sites.
// It returns the binding origins in the creator's terms together with the creator.
type Binding struct {
	Creator *ssa.Function
	Site    *ssa.MakeClosure
	Origins Set
}

func (a *Analysis) Bindings(fn *ssa.Function, idx int) []Binding {
	var out []Binding
	par := fn.Parent()
	if par == nil {
		return nil
	}
	pi := a.Info[par]
	if pi == nil {
		return nil
	}
	for mc, binds := range pi.Closures {
		if mc.Fn == fn && idx < len(binds) {
			out = append(out, Binding{Creator: par, Site: mc, Origins: binds[idx]})
		}
	}
	sort.Slice(out, func(i, j int) bool { return out[i].Site.Pos() < out[j].Site.Pos() })
	return out
}

// SiteValue returns the allocating SSA value behind a fresh root of fn.
func (a *Analysis) SiteValue(fn *ssa.Function, r Root) ssa.Value {
	fi := a.Info[fn]
	if fi == nil || r.K != RFresh || r.ID < 0 || r.ID >= len(fi.sites) {
		return nil
	}
	return fi.sites[r.ID].val
}

// Describe renders an effect for diagnostics.
func (a *Analysis) Describe(e *Effect) string {
	s := e.Via + " to " + e.Loc()
	if e.Owner != nil && e.Field != "" {
		s += " (field " + e.Owner.Obj().Name() + "." + e.Field + ")"
	} else if e.ElemOf != nil {
		s += " (element of " + strings.ReplaceAll(e.ElemOf.String(), a.P.Module+"/", "") + ")"
	}
	s += " by instruction at " + a.P.InstrPos(e.Instr) + " in " + a.P.Name(e.In)
	if len(e.Chain) > 0 {
		s += " via " + strings.Join(e.Chain, " -> ")
	}
	return s
}
