// Package rules holds the per-property rule sets.
package rules

import (
	"fmt"
	"go/types"
	"sort"
	"strings"

	"golang.org/x/tools/go/ssa"

	"pv/internal/load"
	"pv/internal/own"
	"pv/internal/report"
	"pv/internal/scope"
)

// Ctx is what a rule set sees: the loaded program, the shared analyses and the result sink.
type Ctx struct {
	P   *load.Prog
	S   *scope.Scope
	R   *report.Result
	own *own.Analysis

	floads map[*types.Var][]ssa.Value
	tm     *textModel

	linDepth int
	preCache map[*ssa.Function][]preCand
	preBusy  map[*ssa.Function]bool
	patFns   map[*ssa.Function]bool
}

func NewCtx(p *load.Prog, prop, config string) *Ctx {
	return &Ctx{P: p, S: scope.Compute(p), R: report.NewResult(prop, config)}
}

// Share lets several property runs over one load reuse the analyses.
func (c *Ctx) For(prop string) *Ctx {
	return &Ctx{P: c.P, S: c.S, R: report.NewResult(prop, c.R.Config), own: c.own}
}

func (c *Ctx) Own() *own.Analysis {
	if c.own == nil {
		c.own = own.Analyze(c.P)
	}
	return c.own
}

// Property is a registered rule set.
type Property struct {
	ID   string
	Meta report.Meta
	Run  func(c *Ctx)
}

var Registry = map[string]*Property{}

func register(p *Property) { Registry[p.ID] = p }

// IDs returns the registered property ids in order.
func IDs() []string {
	var out []string
	for k := range Registry {
		out = append(out, k)
	}
	sort.Strings(out)
	return out
}

var commonAssumptions = []string{
	"A-user: code outside the library reached through interfaces (user parsers, interpreters, result handlers, transformers, foreign node types) honours the documented contracts and does not mutate its arguments",
	"A-alias: origins are tracked through SSA values, local memory, struct copies and call summaries (no general points-to analysis); the library uses neither unsafe nor reflect (rule U0), values of unknown provenance count as non-fresh",
	"go/types, go/ssa and the VTA/CHA call graph of golang.org/x/tools v0.29.0 model the program faithfully",
}

var commonTrusted = []string{"go/types", "go/ssa", "callgraph/vta+cha", "the checker itself (/verif/checker)"}

// fn helpers

func (c *Ctx) name(fn *ssa.Function) string { return c.P.Name(fn) }

func (c *Ctx) short(t types.Type) string {
	if t == nil {
		return "?"
	}
	return strings.ReplaceAll(t.String(), c.P.Module+"/", "")
}

// U0 checks the soundness preconditions of the analyses over library scope.
// libFieldStores: every value stored into a struct field anywhere in the library (field-based flow for values that
// travel through a struct of the library's own, e.g. a helper object replacing captured variables).
var libFieldStores map[*types.Var][]ssa.Value

func (c *Ctx) indexFieldStores() {
	libFieldStores = map[*types.Var][]ssa.Value{}
	for _, fn := range c.P.LibFuncs {
		for _, b := range fn.Blocks {
			for _, in := range b.Instrs {
				if st, ok := in.(*ssa.Store); ok {
					if fa, ok := st.Addr.(*ssa.FieldAddr); ok {
						if fv := fieldVar(fa); fv != nil {
							libFieldStores[fv] = append(libFieldStores[fv], st.Val)
						}
					}
				}
			}
		}
	}
}

func (c *Ctx) U0() {
	const rule = "U0 analysis-preconditions"
	c.indexFieldStores()
	c.R.Rule(rule, "library scope imports neither unsafe nor reflect, has no go statement, no select, no channel operation; no library package imports a generated test-double package", 1)
	bad := 0
	for _, k := range c.P.LibKeys() {
		pk := c.P.Lib[k]
		for imp := range pk.Imports {
			if imp == "unsafe" || imp == "reflect" || imp == "C" {
				c.R.Violation(rule, "import "+imp+" in "+k, k, "-", "library package imports "+imp+": the ownership and effect analyses are not sound in its presence")
				bad++
			}
			for _, f := range c.P.Fakes {
				if imp == f {
					c.R.Violation(rule, "import fakes in "+k, k, "-", "library package imports the generated test-double package "+f)
					bad++
				}
			}
		}
	}
	for _, fn := range c.P.LibFuncs {
		for _, b := range fn.Blocks {
			for _, in := range b.Instrs {
				switch in.(type) {
				case *ssa.Go, *ssa.Select, *ssa.Send, *ssa.MakeChan:
					c.R.Violation(rule, fmt.Sprintf("%T in %s", in, c.name(fn)), c.name(fn), c.P.InstrPos(in), fmt.Sprintf("concurrency construct %T in library code: parse-time determinism and the effect analysis assume none", in))
					bad++
				}
			}
		}
	}
	if bad == 0 {
		c.R.Hold(rule, fmt.Sprintf("%d library packages, %d functions", len(c.P.Lib), len(c.P.LibFuncs)), "no unsafe/reflect/cgo import, no go/select/channel instruction, fakes not imported: "+strings.Join(c.P.Fakes, ", "))
	}
}

// implementsNode reports whether T or *T implements parsley.Node.
func (c *Ctx) nodeIface() *types.Interface {
	pk := c.P.Lib["parsley"]
	if pk == nil {
		return nil
	}
	o := pk.Types.Scope().Lookup("Node")
	if o == nil {
		return nil
	}
	i, _ := o.Type().Underlying().(*types.Interface)
	return i
}

func (c *Ctx) lookupIface(pkg, name string) *types.Interface {
	pk := c.P.Lib[pkg]
	if pk == nil {
		return nil
	}
	o := pk.Types.Scope().Lookup(name)
	if o == nil {
		return nil
	}
	i, _ := o.Type().Underlying().(*types.Interface)
	return i
}

func (c *Ctx) lookupType(pkg, name string) types.Type {
	pk := c.P.Lib[pkg]
	if pk == nil {
		return nil
	}
	o := pk.Types.Scope().Lookup(name)
	if o == nil {
		return nil
	}
	return o.Type()
}

// nodeStructs lists the named struct types of the library that implement parsley.Node.
func (c *Ctx) nodeStructs() map[*types.TypeName]bool {
	out := map[*types.TypeName]bool{}
	ni := c.nodeIface()
	if ni == nil {
		return out
	}
	for _, k := range c.P.LibKeys() {
		sc := c.P.Lib[k].Types.Scope()
		for _, n := range sc.Names() {
			tn, ok := sc.Lookup(n).(*types.TypeName)
			if !ok || tn.IsAlias() {
				continue
			}
			if _, isStruct := tn.Type().Underlying().(*types.Struct); !isStruct {
				continue
			}
			if types.Implements(tn.Type(), ni) || types.Implements(types.NewPointer(tn.Type()), ni) {
				out[tn] = true
			}
		}
	}
	return out
}

func (c *Ctx) isNodeType(t types.Type) bool {
	ni := c.nodeIface()
	if ni == nil || t == nil {
		return false
	}
	if i, ok := t.Underlying().(*types.Interface); ok {
		return types.Implements(i, ni) || types.Identical(i, ni)
	}
	return false
}

// isNodeSlice: slice (or array) whose element type is a node interface.
func (c *Ctx) isNodeSlice(t types.Type) bool {
	if t == nil {
		return false
	}
	switch u := t.Underlying().(type) {
	case *types.Slice:
		return c.isNodeType(u.Elem())
	case *types.Array:
		return c.isNodeType(u.Elem())
	}
	return false
}
