package rules

import (
	"fmt"
	"go/token"
	"go/types"
	"strings"

	"golang.org/x/tools/go/ssa"

	"pv/internal/report"
	"pv/internal/ssax"
)

func init() {
	register(&Property{ID: "C02", Run: runC02, Meta: report.Meta{ID: "C02",
		Explanation: "DECIDED (for all grammars and inputs at once): the three lemmas from which the re-entry bound follows — R02a every memoizing parser runs its wrapped parser only after the test count(idx) > Remaining(pos)+K (K<=1) came out false; R02b the wrapped parser is called with the incoming context incremented at that same idx and at the incoming position, every parser call inside a memoizing parser is that guarded call, and IntMap.Inc has no other caller; R02c every other place that hands a left-recursion context on (12 nested Parse sites and the sequence's internal recursion) hands on the incoming context unchanged, except behind a guard proving that the position handed on is greater than the incoming one, and never across a loop back edge. With these, along any chain of calls at one position the counter equals the number of active activations of that memoized parser, so at most Remaining+2 are ever active (hand-written argument in DESIGN.md §4 C02). NOT DECIDED: termination for user parsers; that IntMap.Inc/Get and Reader.Remaining compute what their names say (Remaining's offset-relativity is decided under C12); the premise that repetition operands consume input.",
		Assumptions: commonAssumptions, TrustedBase: commonTrusted}})
}

func runC02(c *Ctx) {
	c.U0()
	c.ruleR02ab("R02a curtailment-guard", "R02b own-increment")
	c.ruleR02c("R02c context-preservation", false)
}

func ownParam(fn *ssa.Function, pkg, name string) *ssa.Parameter {
	var found *ssa.Parameter
	for _, p := range fn.Params {
		if ssax.NamedIs(p.Type(), pkg, name) {
			if found != nil {
				return nil
			}
			found = p
		}
	}
	return found
}

func isStaticMethod(v ssa.Value, pkg, typ, name string) (*ssa.Call, bool) {
	cl, ok := v.(*ssa.Call)
	if !ok {
		return nil, false
	}
	sc := cl.Call.StaticCallee()
	if sc == nil || sc.Name() != name || sc.Signature.Recv() == nil {
		return nil, false
	}
	t := sc.Signature.Recv().Type()
	if p, isP := t.(*types.Pointer); isP {
		t = p.Elem()
	}
	return cl, ssax.NamedIs(t, pkg, typ)
}

// isRemainingOf: v is ctx.Reader().Remaining(pos) (interface invoke or static) with the given pos.
func isRemainingOf(v ssa.Value, pos ssa.Value) bool {
	cl, ok := v.(*ssa.Call)
	if !ok {
		return false
	}
	cc := cl.Call
	if cc.IsInvoke() && cc.Method.Name() == "Remaining" && len(cc.Args) == 1 {
		return cc.Args[0] == pos
	}
	if sc := cc.StaticCallee(); sc != nil && sc.Name() == "Remaining" && len(cc.Args) == 2 {
		return cc.Args[1] == pos
	}
	return false
}

// curtailCond: cond has the form count > Remaining(pos)+K (curtailing when true) or its complement
// count <= Remaining(pos)+K (curtailing when false); returns count call, K and the outcome that curtails.
func curtailCond(cond ssa.Value, pos ssa.Value) (count ssa.Value, k int64, onTrue bool, ok bool) {
	op, x, y, isCmp := ssax.CmpOp(cond)
	if !isCmp {
		return nil, 0, false, false
	}
	// normalise to count OP bound
	bound := func(v ssa.Value) (int64, bool) {
		if isRemainingOf(v, pos) {
			return 0, true
		}
		if b, isB := v.(*ssa.BinOp); isB && b.Op == token.ADD {
			if kk, isC := ssax.ConstInt(b.Y); isC && isRemainingOf(b.X, pos) {
				return kk, true
			}
			if kk, isC := ssax.ConstInt(b.X); isC && isRemainingOf(b.Y, pos) {
				return kk, true
			}
		}
		if b, isB := v.(*ssa.BinOp); isB && b.Op == token.SUB {
			if kk, isC := ssax.ConstInt(b.Y); isC && isRemainingOf(b.X, pos) {
				return -kk, true
			}
		}
		return 0, false
	}
	if kk, isB := bound(y); isB {
		count = x
		k = kk
	} else if kk, isB := bound(x); isB {
		count = y
		k = kk
		op = ssax.Swap(op)
	} else {
		return nil, 0, false, false
	}
	switch op {
	case token.GTR: // count > R+k
		return count, k, true, true
	case token.GEQ: // count >= R+k  ==  count > R+k-1
		return count, k - 1, true, true
	case token.LEQ: // !(count <= R+k)  ==  count > R+k
		return count, k, false, true
	case token.LSS: // !(count < R+k)  ==  count > R+k-1
		return count, k - 1, false, true
	}
	return nil, 0, false, false
}

func (c *Ctx) ruleR02ab(ra, rb string) {
	c.R.Rule(ra, "the wrapped parser of every memoizing parser is called only behind the false edge of count(idx) > Remaining(pos)+K with K <= 1", 1)
	c.R.Rule(rb, "the wrapped call receives Inc(incoming context, idx) and the incoming position; every parser call in a memoizing parser is that call; IntMap.Inc has no other caller", 2)
	n := 0
	incSites := map[*ssa.Call]bool{}
	for _, m := range c.memos() {
		if !c.S.Parser[m.Fn] {
			continue
		}
		n++
		fn := c.name(m.Fn)
		L := ownParam(m.Fn, "data", "IntMap")
		P := ownParam(m.Fn, "parsley", "Pos")
		if L == nil || P == nil || m.Wrapped == nil {
			c.R.Undecided(ra, fn+" shape", fn, c.P.Pos(m.Fn.Pos()), "memoizing parser without a unique context/position parameter or without a wrapped call")
			continue
		}
		// every parse call must be the guarded one
		for _, call := range ssax.Calls(m.Fn) {
			cl, ok := call.(*ssa.Call)
			if !ok || !ssax.IsParseCall(cl) {
				continue
			}
			site := fn + " call @" + c.P.InstrPos(cl)
			_, lrc, pos := ssax.ParseArgs(cl)
			// R02b
			inc, isInc := isStaticMethod(lrc, "data", "IntMap", "Inc")
			var idx ssa.Value
			okb := false
			if isInc && len(inc.Call.Args) == 2 && inc.Call.Args[0] == L {
				idx = inc.Call.Args[1]
				incSites[inc] = true
				okb = pos == P
			}
			if !okb {
				why := "its context argument is not IntMap.Inc(<incoming context>, idx)"
				if isInc && pos != P {
					why = "its position argument is not the incoming position"
				}
				c.R.Violation(rb, fn+" parse call without own increment", fn, c.P.InstrPos(cl), fmt.Sprintf("memoizing parser calls a parser but %s: this activation is not counted, so left recursion through this call is never curtailed", why))
				continue
			}
			if m.Get != nil && len(m.GetArgs) == 4 && !sameSource(m.GetArgs[1], idx) {
				c.R.Violation(rb, fn+" increments another index", fn, c.P.InstrPos(inc), "the counter incremented for the wrapped call is not the parser index used as the cache key")
				continue
			}
			c.R.Hold(rb, site, "context = Inc(incoming, idx), position = incoming position")
			// R02a
			good := false
			var seenK []string
			for _, cd := range ssax.DominatingConds(cl.Block()) {
				k, onTrue, isC := c.curtailTest(m.Fn, cd.Val, L, P, idx)
				if !isC {
					continue
				}
				seenK = append(seenK, fmt.Sprintf("K=%d curtailing=%v", k, cd.Truth == onTrue))
				if cd.Truth != onTrue && k <= 1 {
					good = true
				}
			}
			if good {
				c.R.Hold(ra, site, "dominated by the false edge of count(idx) > Remaining(pos)+K, K<=1 ("+strings.Join(seenK, ",")+")")
			} else {
				c.R.Violation(ra, fn+" wrapped call unguarded", fn, c.P.InstrPos(cl), fmt.Sprintf("the wrapped parser is called without the curtailment test count(idx) > Remaining(pos)+K (K<=1) having come out false on every path (guards recognised: %v): re-entry at one position is not bounded by remaining+2", seenK))
			}
		}
	}
	if n == 0 {
		c.R.Fail("coverage-lost", ra, "memoizing parsers", "-", "-", "no memoizing parser found in parser scope")
	}
	// Inc has no other caller
	otherInc := 0
	for _, fn := range c.P.LibFuncs {
		if fn.Synthetic != "" {
			continue
		}
		for _, call := range ssax.Calls(fn) {
			if cl, ok := isStaticMethod(callValue(call), "data", "IntMap", "Inc"); ok && !incSites[cl] {
				otherInc++
				c.R.Violation(rb, c.name(fn)+" calls IntMap.Inc", c.name(fn), c.P.InstrPos(cl), "IntMap.Inc is called outside the guarded wrapped call of a memoizing parser: a counter is incremented for an activation that the curtailment test does not see")
			}
		}
	}
	if otherInc == 0 {
		c.R.Hold(rb, fmt.Sprintf("IntMap.Inc call sites: %d", len(incSites)), "all are the context argument of a guarded wrapped call")
	}
}

func callValue(c ssa.CallInstruction) ssa.Value {
	if v, ok := c.(ssa.Value); ok {
		return v
	}
	return nil
}

// samePosValue: a and b denote the same position value at their program points: identical SSA values, or
// two argument-less invokes of the same method on the same receiver value.
func samePosValue(a, b ssa.Value) bool {
	a, b = ssax.Strip(a), ssax.Strip(b)
	if a == b {
		return true
	}
	ca, ok1 := a.(*ssa.Call)
	cb, ok2 := b.(*ssa.Call)
	if ok1 && ok2 && ca.Call.IsInvoke() && cb.Call.IsInvoke() && ca.Call.Method == cb.Call.Method && len(ca.Call.Args) == 0 && len(cb.Call.Args) == 0 && ca.Call.Value == cb.Call.Value {
		return true
	}
	return false
}

// progressGuarded: block b is dominated by the true edge of a comparison showing q > P.
func progressGuarded(b *ssa.BasicBlock, q ssa.Value, P ssa.Value) bool {
	for _, cd := range ssax.DominatingConds(b) {
		op, x, y, ok := ssax.CmpOp(cd.Val)
		if !ok {
			continue
		}
		if !cd.Truth {
			op = ssax.Negate(op)
		}
		if samePosValue(x, q) && y == P && (op == token.GTR || op == token.NEQ) {
			return true
		}
		if samePosValue(y, q) && x == P && (op == token.LSS || op == token.NEQ) {
			return true
		}
	}
	return false
}

type ctxLeaf struct {
	v        ssa.Value
	via      *ssa.BasicBlock // predecessor block of the last phi edge, nil when direct
	backEdge bool
}

// ctxLeaves traces a context (or flag) argument back through phis, remembering the entering edge.
func ctxLeaves(v ssa.Value, at *ssa.BasicBlock) []ctxLeaf {
	var out []ctxLeaf
	type key struct {
		v    ssa.Value
		back bool
	}
	seen := map[key]bool{}
	var walk func(v ssa.Value, via *ssa.BasicBlock, back bool)
	walk = func(v ssa.Value, via *ssa.BasicBlock, back bool) {
		v = ssax.Strip(v)
		if phi, ok := v.(*ssa.Phi); ok {
			if seen[key{phi, back}] {
				return
			}
			seen[key{phi, back}] = true
			for i, e := range phi.Edges {
				pred := phi.Block().Preds[i]
				isBack := phi.Block().Dominates(pred)
				walk(e, pred, back || isBack)
			}
			return
		}
		out = append(out, ctxLeaf{v, via, back})
	}
	walk(v, nil, false)
	return out
}

// ruleR02c: context preservation at every place a left-recursion context is handed on.
// withFlag additionally checks the mergeCurtailingParsers-style bool flags (R01c).
func (c *Ctx) ruleR02c(rule string, withFlag bool) {
	c.R.Rule(rule, "a left-recursion context handed to a parser (or to an internal helper) is the incoming one, unless the edge delivering another value is dominated by a guard proving that the position handed on exceeds the incoming position; resets never cross a loop back edge", 12)
	memoFns := map[*ssa.Function]bool{}
	for _, m := range c.memos() {
		memoFns[m.Fn] = true
	}
	for _, fn := range c.S.Sorted(c.S.Parser) {
		if fn.Synthetic != "" {
			continue
		}
		L := ownParam(fn, "data", "IntMap")
		P := ownParam(fn, "parsley", "Pos")
		for _, call := range ssax.Calls(fn) {
			cc := call.Common()
			// arguments of type data.IntMap / parsley.Pos / bool in callee parameter order
			var lrcArg, posArg ssa.Value
			var flagArgs []ssa.Value
			args := cc.Args
			for _, a := range args {
				switch {
				case ssax.NamedIs(a.Type(), "data", "IntMap"):
					lrcArg = a
				case ssax.NamedIs(a.Type(), "parsley", "Pos"):
					posArg = a
				}
			}
			if lrcArg == nil {
				continue
			}
			isParse := ssax.IsParseCall(call)
			callee := cc.StaticCallee()
			if !isParse {
				// internal helper taking a context and a position (the sequence recursion); data.IntMap methods are not hand-ons
				if callee == nil || !c.P.InLib(callee) || posArg == nil || callee.Signature.Recv() != nil && ssax.NamedIs(callee.Signature.Recv().Type(), "data", "IntMap") {
					continue
				}
				if ownParam(callee, "data", "IntMap") == nil {
					continue
				}
				// a helper from which no parser can be called cannot re-enter the grammar with the context it is given
				if !c.reachesParseCall(callee) && !isResultCacheMethod(callee, "Get") {
					c.R.Exempt("context handed to "+c.name(callee), "no parser call is reachable from this helper: the context it receives is only stored or inspected")
					continue
				}
				for i, a := range args {
					if b, ok := a.Type().Underlying().(*types.Basic); ok && b.Kind() == types.Bool && i < len(callee.Params) {
						flagArgs = append(flagArgs, a)
					}
				}
			}
			site := c.name(fn) + " -> " + callDescShort(c, call) + " @" + c.P.InstrPos(call)
			if L == nil || P == nil {
				if c.name(fn) == "parsley.Parse" {
					continue
				}
				c.R.Undecided(rule, c.name(fn)+" hands on a context without own parameters", c.name(fn), c.P.InstrPos(call), "function hands a left-recursion context on but has no unique incoming context/position parameter")
				continue
			}
			if memoFns[fn] && isParse {
				c.R.Examined(1) // the wrapped call of a memoizing parser: R02b
				continue
			}
			bad := ""
			for _, lf := range ctxLeaves(lrcArg, call.Block()) {
				if lf.v == L {
					continue
				}
				desc := lf.v.String()
				if u, ok := lf.v.(*ssa.UnOp); ok {
					if g, ok := u.X.(*ssa.Global); ok {
						desc = "the shared " + g.Name()
					}
				}
				blk := call.Block()
				if lf.via != nil {
					blk = lf.via
				}
				switch {
				case lf.backEdge:
					bad = fmt.Sprintf("the context handed on may be %s carried over a loop back edge from an earlier iteration: a reset earned by one alternative is applied to later ones that consumed nothing", desc)
				case posArg == nil || !progressGuarded(blk, posArg, P):
					bad = fmt.Sprintf("the context handed on may be %s although no guard on this path proves that the position handed on is greater than the incoming position: the re-entry counters are lost without progress, so left recursion through this call is not curtailed", desc)
				}
				if bad != "" {
					break
				}
			}
			if bad == "" && withFlag {
				// the flags that switch off merging of curtailing parsers follow the same discipline
				for _, fa := range flagArgs {
					for _, lf := range ctxLeaves(fa, call.Block()) {
						if _, isParam := lf.v.(*ssa.Parameter); isParam {
							continue
						}
						if b, isC := ssax.ConstBool(lf.v); isC && b {
							continue // true = keep merging: conservative
						}
						blk := call.Block()
						if lf.via != nil {
							blk = lf.via
						}
						if lf.backEdge || posArg == nil || !progressGuarded(blk, posArg, P) {
							bad = fmt.Sprintf("the merge-curtailing-parsers flag handed on may be %s without a progress guard: curtailing parsers of a same-position sub-result are not merged, so a cached result claims a smaller context than it depends on", lf.v.String())
						}
					}
				}
			}
			if bad != "" {
				c.R.Violation(rule, c.name(fn)+" -> "+callDescShort(c, call), c.name(fn), c.P.InstrPos(call), bad)
			} else {
				c.R.Hold(rule, site, "incoming context (or reset behind a progress guard on the position handed on)")
			}
		}
	}
}

func callDescShort(c *Ctx, call ssa.CallInstruction) string {
	cc := call.Common()
	if cc.IsInvoke() {
		return "invoke " + cc.Method.Name()
	}
	if sc := cc.StaticCallee(); sc != nil {
		return c.name(sc)
	}
	return "call " + cc.Value.Name()
}

// curtailTest recognises count(idx) > Remaining(pos)+K, written in fn itself or in a bool helper called with fn's
// own context, position and receiver. Returns K and the outcome of cond on which the parser curtails.
func (c *Ctx) curtailTest(fn *ssa.Function, cond ssa.Value, L, P *ssa.Parameter, idx ssa.Value) (int64, bool, bool) {
	check := func(cond ssa.Value, l, p ssa.Value, sameIdx func(ssa.Value) bool) (int64, bool, bool) {
		count, k, onTrue, isC := curtailCond(cond, p)
		if !isC {
			return 0, false, false
		}
		get, isGet := isStaticMethod(count, "data", "IntMap", "Get")
		if !isGet || len(get.Call.Args) != 2 || get.Call.Args[0] != l || !sameIdx(get.Call.Args[1]) {
			return 0, false, false
		}
		return k, onTrue, true
	}
	if k, onTrue, ok := check(cond, L, P, func(v ssa.Value) bool { return sameSource(v, idx) }); ok {
		return k, onTrue, true
	}
	h, inner, args, ok := c.boolHelper(cond)
	if !ok {
		return 0, false, false
	}
	var hl, hp ssa.Value
	recvOK := h.Signature.Recv() == nil
	for prm, a := range args {
		switch {
		case a == ssa.Value(L):
			hl = prm
		case a == ssa.Value(P):
			hp = prm
		}
		if h.Signature.Recv() != nil && prm == ssa.Value(h.Params[0]) && isRecvValue(fn, a) {
			recvOK = true
		}
	}
	if hl == nil || hp == nil {
		return 0, false, false
	}
	want := keyDesc(idx)
	return check(inner, hl, hp, func(v ssa.Value) bool {
		// the index handed to the helper as an argument
		if a, ok := args[ssax.Strip(v)]; ok {
			return sameSource(a, idx)
		}
		d := keyDesc(v)
		if d == "" || d != want {
			return false
		}
		// a receiver field means the same thing in the helper only if the helper runs on the same receiver
		return !strings.HasPrefix(strings.TrimPrefix(d, "conv:"), "recv.") || recvOK
	})
}

// reachesParseCall: a call of a parser (Parser.Parse, a parser.Func value) is reachable from fn through library code.
func (c *Ctx) reachesParseCall(fn *ssa.Function) bool {
	seen := map[*ssa.Function]bool{}
	var walk func(f *ssa.Function, d int) bool
	walk = func(f *ssa.Function, d int) bool {
		if seen[f] || d > 8 {
			return false
		}
		seen[f] = true
		for _, call := range ssax.Calls(f) {
			if ssax.IsParseCall(call) {
				return true
			}
			for _, g := range c.P.Callees(f, call) {
				if c.P.InLib(g) && walk(g, d+1) {
					return true
				}
			}
		}
		for _, an := range f.AnonFuncs {
			if walk(an, d+1) {
				return true
			}
		}
		return false
	}
	return walk(fn, 0)
}
