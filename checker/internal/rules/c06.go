package rules

import (
	"fmt"
	"go/token"
	"go/types"

	"golang.org/x/tools/go/ssa"

	"pv/internal/report"
	"pv/internal/ssax"
)

func init() {
	register(&Property{ID: "C06", Run: runC06, Meta: report.Meta{ID: "C06",
		Explanation: "DECIDED (for all grammars and inputs at once) — the part no test looks at, that no combinator loses a failure: R06a for each of the nested parser calls, its error (i) enters the combinator's accumulator / result only under conditions built from the error itself, the accumulator, positions and IsNotFoundError (max-selection and the own-start filter) — never under an unrelated condition such as the presence of a node; (ii) reaches a returned error or a Context.SetError call; (iii) where a combinator accumulates errors over several calls, every successful return is preceded by SetError of a value that includes the accumulated error (not just the last call's). R06b the position of every error the library creates is its own position parameter, a position handed out by the Reader, or the position of an existing error/node — never integer arithmetic. With C09 (reader positions stay inside the file) every reported position is one at which the reader was consulted. R06c an accumulated error is replaced only by one that is not before it. R06d the line table gets index+1 exactly for every byte 0x0A of the content and under no other condition (byte-loop shape; other shapes are not decided), so the rendered line:column of a position after a trailing line feed is right. NOT DECIDED: that the reported position EQUALS the maximum over all failed attempts; which expectation text wins; line:column rendering (C11). The routing through FileSet.ErrorWithPosition and the message formats are pinned by unit tests and not re-checked.",
		Assumptions: commonAssumptions, TrustedBase: commonTrusted}})
}

func runC06(c *Ctx) {
	c.U0()
	c.ruleR06a("R06a error-propagation")
	c.ruleR06b("R06b positions-not-fabricated")
	c.ruleR06c("R06c max-selection")
	c.ruleR06d("R06d line-table-complete")
}

func isErrorType(t types.Type) bool { return ssax.NamedIs(t, "parsley", "Error") }

// errDerived: forward closure of an error value: phis, re-positioning through NewError(_, e.Cause()), fields.
func (c *Ctx) errFlow(e ssa.Value) *flowResult {
	return c.forward([]ssa.Value{e}, func(k *ssa.Call, i int) bool {
		// e.Cause() and NewError(pos, <cause of e>) keep the failure alive under a new position
		if k.Call.IsInvoke() && i == -1 && k.Call.Method.Name() == "Cause" {
			return true
		}
		if sc := k.Call.StaticCallee(); sc != nil && sc.Name() == "NewError" && i == 1 {
			return true
		}
		// a library helper that may hand the error back (e.g. an extracted furthestError(current, candidate, pos))
		if sc := k.Call.StaticCallee(); sc != nil && i >= 0 && c.P.InLib(sc) && !ssax.IsParserSig(sc.Signature) && helperReturnsParam(sc, i) {
			return true
		}
		return false
	})
}

// condVocabularyOK: the condition is built only from the allowed base values.
func condVocabularyOK(cond ssa.Value, base func(ssa.Value) bool, depth int) bool {
	if depth > 12 {
		return false
	}
	cond = ssax.Strip(cond)
	if base(cond) {
		return true
	}
	switch x := cond.(type) {
	case *ssa.Const:
		return true
	case *ssa.BinOp:
		return condVocabularyOK(x.X, base, depth+1) && condVocabularyOK(x.Y, base, depth+1)
	case *ssa.UnOp:
		if x.Op == token.NOT {
			return condVocabularyOK(x.X, base, depth+1)
		}
		if x.Op == token.MUL {
			// load of the accumulator field or variable
			return base(x)
		}
	case *ssa.Call:
		if x.Call.IsInvoke() && (x.Call.Method.Name() == "Pos" || x.Call.Method.Name() == "ReaderPos") && len(x.Call.Args) == 0 {
			return condVocabularyOK(x.Call.Value, base, depth+1)
		}
		if sc := x.Call.StaticCallee(); sc != nil && (sc.Name() == "IsNotFoundError" || sc.Name() == "IsWhitespaceError") && len(x.Call.Args) == 1 {
			return condVocabularyOK(x.Call.Args[0], base, depth+1)
		}
	case *ssa.Phi:
		for _, e := range x.Edges {
			if !condVocabularyOK(e, base, depth+1) {
				return false
			}
		}
		return true
	}
	return false
}

func (c *Ctx) ruleR06a(rule string) {
	c.R.Rule(rule, "the error of every nested parser call enters the accumulator/result only under error/position conditions, reaches a returned error or SetError, and accumulated errors are recorded on success", 12)
	for _, fn := range c.S.Sorted(c.S.Parser) {
		if fn.Synthetic != "" {
			continue
		}
		name := c.name(fn)
		P := ownParam(fn, "parsley", "Pos")
		for _, call := range ssax.Calls(fn) {
			cl, ok := call.(*ssa.Call)
			if !ok || !ssax.IsParseCall(cl) {
				continue
			}
			site := name + " call @" + c.P.InstrPos(cl)
			errs := ssax.Extracts(cl, 2)
			if len(errs) == 0 {
				if c.builtBy("combinator.SuppressError")[fn] {
					c.R.Exempt(name, "SuppressError removes the error from the parser result: its documented purpose")
					continue
				}
				c.R.Violation(rule, name+" discards error", name, c.P.InstrPos(cl), "the error result of a nested parser call is never read: a failure at this point can never be reported")
				continue
			}
			if c.builtBy("combinator.SuppressError")[fn] {
				c.R.Exempt(name, "SuppressError removes the error from the parser result: its documented purpose")
				continue
			}
			e := errs[0]
			fl := c.errFlow(e)
			// (ii) sinks
			sink := len(fl.Rets) > 0
			for k := range fl.CallArg {
				if sc := k.Call.StaticCallee(); sc != nil && sc.Name() == "SetError" {
					sink = true
				}
			}
			bad := false
			if !sink {
				bad = true
				c.R.Violation(rule, name+" error reaches no sink", name, c.P.InstrPos(cl), "the error of this nested parser call neither reaches a returned error nor a Context.SetError call: the failure is lost and the reported position falls short of the furthest failure")
			}
			// (i) vocabulary of the conditions under which e enters a phi / field / return
			acc := map[ssa.Value]bool{}
			for v := range fl.Vals {
				acc[v] = true
			}
			base := func(v ssa.Value) bool {
				if acc[v] || v == ssa.Value(P) {
					return true
				}
				if _, isParam := v.(*ssa.Parameter); isParam && ssax.NamedIs(v.Type(), "parsley", "Pos") {
					return true
				}
				// a position handed out by the reader / captured original position
				if ssax.NamedIs(v.Type(), "parsley", "Pos") {
					switch v.(type) {
					case *ssa.Extract, *ssa.Call:
						return true
					}
				}
				// loads of the fields the error was stored into (the accumulator)
				if u, ok := v.(*ssa.UnOp); ok && u.Op == token.MUL {
					if fa, ok := u.X.(*ssa.FieldAddr); ok && fl.Fields[fieldVar(fa)] {
						return true
					}
					if _, ok := u.X.(*ssa.FreeVar); ok && isErrorType(u.Type()) {
						return true
					}
					if _, ok := u.X.(*ssa.Alloc); ok && isErrorType(u.Type()) {
						return true
					}
				}
				// grammar configuration: fields of the receiver and captured constructor arguments (immutable, C14)
				if u, ok := v.(*ssa.UnOp); ok && u.Op == token.MUL {
					if fa, ok := u.X.(*ssa.FieldAddr); ok && len(fn.Params) > 0 && fn.Signature.Recv() != nil && fa.X == ssa.Value(fn.Params[0]) {
						return true
					}
					if _, ok := u.X.(*ssa.FreeVar); ok {
						return true
					}
				}
				// another error value of the same function (e.g. the whitespace error in the trimming wrappers)
				if isErrorType(v.Type()) {
					switch v.(type) {
					case *ssa.Extract, *ssa.Phi:
						return true
					}
				}
				return false
			}
			var entry []*ssa.BasicBlock
			if e.Referrers() != nil {
				for _, r := range *e.Referrers() {
					switch x := r.(type) {
					case *ssa.Phi:
						for i, ed := range x.Edges {
							if ed == ssa.Value(e) {
								entry = append(entry, x.Block().Preds[i])
							}
						}
					case *ssa.Store:
						if x.Val == ssa.Value(e) {
							entry = append(entry, x.Block())
						}
					}
				}
			}
			// the error handed to a library helper: the conditions under which the helper keeps it
			if e.Referrers() != nil {
				for _, r := range *e.Referrers() {
					k, ok := r.(*ssa.Call)
					if !ok {
						continue
					}
					h := k.Call.StaticCallee()
					if h == nil || !c.P.InLib(h) || ssax.IsParserSig(h.Signature) {
						continue
					}
					for ai, a := range k.Call.Args {
						if a != ssa.Value(e) || !helperReturnsParam(h, ai) {
							continue
						}
						hbase := func(v ssa.Value) bool {
							if p, isP := v.(*ssa.Parameter); isP {
								return isErrorType(p.Type()) || ssax.NamedIs(p.Type(), "parsley", "Pos")
							}
							// grammar configuration: a field of the helper's own receiver
							if u, ok := v.(*ssa.UnOp); ok && u.Op == token.MUL && h.Signature.Recv() != nil {
								if fa, ok := u.X.(*ssa.FieldAddr); ok && fa.X == ssa.Value(h.Params[0]) {
									return true
								}
							}
							// a position handed out by the reader or read off an error, as in the parser itself
							if ssax.NamedIs(v.Type(), "parsley", "Pos") || isErrorType(v.Type()) {
								switch v.(type) {
								case *ssa.Extract, *ssa.Call:
									return true
								}
							}
							return false
						}
						for _, hr := range ssax.Returns(h) {
							keeps := false
							for _, res := range hr.Results {
								for _, l := range ssax.Leaves(res) {
									if l == ssa.Value(h.Params[ai]) {
										keeps = true
									}
								}
							}
							if !keeps {
								continue
							}
							for _, cd := range ssax.DominatingConds(hr.Block()) {
								if !condVocabularyOK(cd.Val, hbase, 0) {
									bad = true
									c.R.Violation(rule, c.name(h)+" keeps the error under a foreign condition", c.name(h), c.P.InstrPos(hr),
										fmt.Sprintf("the helper keeps the error handed to it only under the condition %s, which is not a test on errors or positions", cd.Val.String()))
								}
							}
						}
					}
				}
			}
			for _, b := range entry {
				for _, cd := range ssax.DominatingConds(b) {
					if cd.At != cl.Block() && cd.At.Dominates(cl.Block()) {
						continue // governs the call itself
					}
					if ci, isI := cd.Val.(ssa.Instruction); isI && ci.Block() == cl.Block() && ssax.Before(ci, cl) {
						continue
					}
					if !condVocabularyOK(cd.Val, base, 0) {
						bad = true
						c.R.Violation(rule, name+" error kept under a foreign condition", name, c.P.InstrPos(cl),
							fmt.Sprintf("the error of the nested parser call at %s is kept only under the condition %s (block %d), which is not a test on the error, the accumulated error or positions: failures of elements that also return a result (e.g. Optional) are dropped, and the reported position falls short of the furthest failure", c.P.InstrPos(cl), cd.Val.String(), cd.At.Index))
						break
					}
				}
			}
			// (iii) accumulated errors recorded on success
			var header *ssa.Phi
			for v := range fl.Vals {
				if ph, ok := v.(*ssa.Phi); ok && isErrorType(ph.Type()) {
					for i := range ph.Edges {
						if ph.Block().Dominates(ph.Block().Preds[i]) {
							header = ph // loop-carried accumulator
						}
					}
				}
			}
			if header != nil || len(fl.Fields) > 0 {
				owners := []*ssa.Function{fn}
				if !ssax.IsParserSig(fn.Signature) {
					owners = c.helperOwners(fn)
				}
				for _, own := range owners {
					for _, r := range ssax.Returns(own) {
						if len(r.Results) != 3 || !ssax.IsNilConst(ssax.Strip(r.Results[2])) {
							continue
						}
						if own == fn && !(r.Block() == cl.Block() || ssax.Reaches(cl.Block(), r.Block(), false)) {
							continue
						}
						if ssax.IsNilConst(ssax.Strip(r.Results[0])) {
							continue // curtailed / empty return
						}
						recorded := false
						for _, k2 := range ssax.Calls(own) {
							k, ok := k2.(*ssa.Call)
							if !ok {
								continue
							}
							sc := k.Call.StaticCallee()
							if sc == nil || sc.Name() != "SetError" || len(k.Call.Args) != 2 {
								continue
							}
							if !(k.Block() == r.Block() || ssax.Reaches(k.Block(), r.Block(), false)) {
								continue
							}
							arg := k.Call.Args[1]
							dep := false
							if header != nil && dependsOn(arg, header, func(k *ssa.Call) bool {
								sc := k.Call.StaticCallee()
								return sc != nil && c.P.InLib(sc) && !ssax.IsParserSig(sc.Signature)
							}) {
								dep = true
							}
							if u, ok := ssax.Strip(arg).(*ssa.UnOp); ok && u.Op == token.MUL {
								if fa, ok := u.X.(*ssa.FieldAddr); ok && fl.Fields[fieldVar(fa)] {
									dep = true
								}
							}
							if dep {
								recorded = true
							}
						}
						if !recorded {
							bad = true
							c.R.Violation(rule, c.name(own)+" success without recording accumulated error", c.name(own), c.P.InstrPos(r),
								"a successful return is not preceded by Context.SetError of a value that includes the errors accumulated from earlier nested calls: when a later alternative matches, the furthest failure of the earlier ones is forgotten")
						}
					}
				}
			}
			if !bad {
				c.R.Hold(rule, site, "error kept under error/position conditions only; reaches a returned error or SetError")
			}
		}
	}
	// tabled: returns that deliberately replace the sub-parser's error
	c.R.Exempt("text.LeftTrim$1 whitespace-error returns", "C10's priority rule: a whitespace error wins over the sub-parser's error when the latter lies beyond the skipped whitespace")
}

func (c *Ctx) ruleR06b(rule string) {
	c.R.Rule(rule, "the position operand of every NewError/NewErrorf is an own position parameter, a position returned by a call (Reader, File, Pos()/ReaderPos()), or a stored position — never the result of arithmetic, a conversion or a constant", 25)
	for _, fn := range c.P.LibFuncs {
		if fn.Synthetic != "" {
			continue
		}
		for _, call := range ssax.Calls(fn) {
			cl, ok := call.(*ssa.Call)
			if !ok {
				continue
			}
			sc := cl.Call.StaticCallee()
			if sc == nil || (sc.Name() != "NewError" && sc.Name() != "NewErrorf") || sc.Pkg == nil || c.P.Rel(sc.Pkg.Pkg.Path()) != "parsley" {
				continue
			}
			site := c.name(fn) + " " + sc.Name() + " @" + c.P.InstrPos(cl)
			bad := ""
			for _, l := range posLeaves(cl.Call.Args[0], fn, 0) {
				switch x := l.(type) {
				case *ssa.Parameter, *ssa.Call, *ssa.Extract:
				case *ssa.UnOp:
					if x.Op != token.MUL {
						bad = "computed by " + x.Op.String()
					}
				case *ssa.BinOp:
					bad = "the result of the arithmetic " + x.String()
				case *ssa.Convert:
					bad = "converted from " + c.short(x.X.Type())
				case *ssa.Const:
					if k, isZ := ssax.ConstInt(x); isZ && k == 0 && sentinelExcluded(cl, cl.Call.Args[0]) {
						continue // NilPos initial value of a variable that is tested against 0 before this use
					}
					bad = "the constant " + x.String()
				default:
					bad = fmt.Sprintf("of unrecognised origin %T", l)
				}
			}
			if bad != "" {
				c.R.Violation(rule, c.name(fn)+" fabricates an error position", c.name(fn), c.P.InstrPos(cl), "the position of the error created here is "+bad+": error positions must be positions the reader handed out (or the parser's own start), otherwise the message points at a place where nothing was tried")
			} else {
				c.R.Hold(rule, site, "position is a parameter / reader-returned / stored position")
			}
		}
	}
}

// posLeaves traces a position value back through phis, type changes and captured variables.
func posLeaves(v ssa.Value, fn *ssa.Function, depth int) []ssa.Value {
	var out []ssa.Value
	for _, l := range ssax.Leaves(v) {
		if depth < 4 {
			if u, ok := l.(*ssa.UnOp); ok && u.Op == token.MUL {
				switch a := u.X.(type) {
				case *ssa.FreeVar:
					// captured variable: the stores in the creator
					if par := fn.Parent(); par != nil {
						idx := -1
						for i, f := range fn.FreeVars {
							if f == a {
								idx = i
							}
						}
						found := false
						for _, b := range par.Blocks {
							for _, in := range b.Instrs {
								if mc, ok := in.(*ssa.MakeClosure); ok && mc.Fn == fn && idx >= 0 && idx < len(mc.Bindings) {
									if al, ok := mc.Bindings[idx].(*ssa.Alloc); ok && al.Referrers() != nil {
										for _, r := range *al.Referrers() {
											if st, ok := r.(*ssa.Store); ok && st.Addr == al {
												out = append(out, posLeaves(st.Val, par, depth+1)...)
												found = true
											}
										}
									}
								}
							}
						}
						if found {
							continue
						}
					}
				case *ssa.Alloc:
					if a.Referrers() != nil {
						found := false
						for _, r := range *a.Referrers() {
							if st, ok := r.(*ssa.Store); ok && st.Addr == a {
								out = append(out, posLeaves(st.Val, fn, depth+1)...)
								found = true
							}
						}
						if found {
							continue
						}
					}
				}
			}
		}
		out = append(out, l)
	}
	return out
}

// sentinelExcluded: the call is dominated by a comparison excluding v == 0.
func sentinelExcluded(cl *ssa.Call, v ssa.Value) bool {
	for _, cd := range ssax.DominatingConds(cl.Block()) {

		op, x, y, ok := ssax.CmpOp(cd.Val)
		if !ok {
			continue
		}
		if !cd.Truth {
			op = ssax.Negate(op)
		}
		zx, isZx := ssax.ConstInt(x)
		zy, isZy := ssax.ConstInt(y)
		if x == v && isZy && zy == 0 && (op == token.GTR || op == token.NEQ) {
			return true
		}
		if y == v && isZx && zx == 0 && (op == token.LSS || op == token.NEQ) {
			return true
		}
	}
	return false
}

// helperReturnsParam: some return of fn may yield its i-th parameter.
func helperReturnsParam(fn *ssa.Function, i int) bool {
	if i >= len(fn.Params) || len(fn.Blocks) == 0 {
		return false
	}
	for _, r := range ssax.Returns(fn) {
		for _, res := range r.Results {
			for _, l := range ssax.Leaves(res) {
				if l == ssa.Value(fn.Params[i]) {
					return true
				}
			}
		}
	}
	return false
}

// ---------------------------------------------------------------------------
// R06c: max-selection. Wherever an accumulated error is replaced by a candidate (a nested call's error, or the
// argument of Context.SetError), every path to the replacement has established that the accumulator is nil or that
// the candidate's position is not before the accumulator's. Otherwise the recorded "furthest" error can move backwards.

type accSite struct {
	at    ssa.Instruction // visiting this instruction on a path means the replacement happens
	cand  ssa.Value
	prevs []ssa.Value
	where string
}

func isPosCallOn(v ssa.Value, p *pathState, targets []ssa.Value) bool {
	cl, ok := v.(*ssa.Call)
	if !ok || !cl.Call.IsInvoke() || cl.Call.Method.Name() != "Pos" || len(cl.Call.Args) != 0 {
		return false
	}
	r := p.resolve(cl.Call.Value)
	for _, t := range targets {
		if r == p.resolve(t) || cl.Call.Value == t {
			return true
		}
	}
	return false
}

func (c *Ctx) accSites(fn *ssa.Function) []accSite {
	var out []accSite
	isCandidate := func(v ssa.Value) bool {
		v = ssax.Strip(v)
		if e, ok := v.(*ssa.Extract); ok && e.Index == 2 {
			if cl, ok := e.Tuple.(*ssa.Call); ok && ssax.IsParseCall(cl) {
				return true
			}
		}
		if p, ok := v.(*ssa.Parameter); ok && isErrorType(p.Type()) && fn.Name() == "SetError" {
			return true
		}
		return false
	}
	for _, b := range fn.Blocks {
		for _, in := range b.Instrs {
			switch x := in.(type) {
			case *ssa.Phi:
				if !isErrorType(x.Type()) {
					continue
				}
				for i, e := range x.Edges {
					if !isCandidate(e) {
						continue
					}
					var prevs []ssa.Value
					for j, o := range x.Edges {
						if j != i && o != e && !ssax.IsNilConst(o) {
							prevs = append(prevs, o)
						}
					}
					pred := b.Preds[i]
					if len(prevs) == 0 || len(pred.Succs) != 1 {
						continue
					}
					out = append(out, accSite{at: pred.Instrs[len(pred.Instrs)-1], cand: e, prevs: prevs, where: "assignment to the accumulated error"})
				}
			case *ssa.Store:
				fa, ok := x.Addr.(*ssa.FieldAddr)
				if !ok || !isErrorType(x.Val.Type()) || !isCandidate(x.Val) {
					continue
				}
				fv := fieldVar(fa)
				var prevs []ssa.Value
				for _, bb := range fn.Blocks {
					for _, i2 := range bb.Instrs {
						if u, ok := i2.(*ssa.UnOp); ok && u.Op == token.MUL {
							if fa2, ok := u.X.(*ssa.FieldAddr); ok && fieldVar(fa2) == fv && fa2.X == fa.X {
								prevs = append(prevs, u)
							}
						}
					}
				}
				if len(prevs) > 0 {
					out = append(out, accSite{at: x, cand: x.Val, prevs: prevs, where: "store to the accumulated error " + fv.Name()})
				}
			}
		}
	}
	return out
}

// helperAccSites: in a helper called as h(acc, cand, ...) the returns that hand back the candidate parameter.
func (c *Ctx) helperAccSites(h *ssa.Function) []accSite {
	cand, acc := -1, -1
	for _, e := range c.P.Callers(h) {
		if e.Site == nil || e.Site.Common().StaticCallee() != h {
			continue
		}
		for i, a := range e.Site.Common().Args {
			if !isErrorType(a.Type()) {
				continue
			}
			s := ssax.Strip(a)
			if ex, ok := s.(*ssa.Extract); ok && ex.Index == 2 {
				if cl, ok := ex.Tuple.(*ssa.Call); ok && ssax.IsParseCall(cl) {
					cand = i
					continue
				}
			}
			switch s.(type) {
			case *ssa.Phi, *ssa.UnOp:
				acc = i
			}
		}
	}
	if cand < 0 || acc < 0 || cand >= len(h.Params) || acc >= len(h.Params) {
		return nil
	}
	var out []accSite
	for _, r := range ssax.Returns(h) {
		if len(r.Results) == 1 && ssax.Strip(r.Results[0]) == ssa.Value(h.Params[cand]) {
			out = append(out, accSite{at: r, cand: h.Params[cand], prevs: []ssa.Value{h.Params[acc]}, where: "return of the candidate error"})
		}
	}
	return out
}

func (c *Ctx) ruleR06c(rule string) {
	c.R.Rule(rule, "an accumulated error is replaced by a candidate only on paths that established 'accumulator is nil' or 'candidate.Pos() >= accumulator.Pos()' (sequence, Any, Choice, Context.SetError, and helpers they delegate to)", 3)
	var fns []*ssa.Function
	fns = append(fns, c.S.Sorted(c.S.Parser)...)
	if f := c.P.Func("(*parsley.Context).SetError"); f != nil && !c.S.Parser[f] {
		fns = append(fns, f)
	}
	for _, fn := range fns {
		if fn.Synthetic != "" {
			continue
		}
		sites := c.accSites(fn)
		if !ssax.IsParserSig(fn.Signature) && fn.Signature.Results().Len() == 1 && isErrorType(fn.Signature.Results().At(0).Type()) {
			sites = append(sites, c.helperAccSites(fn)...)
		}
		if len(sites) == 0 {
			continue
		}
		byInstr := map[ssa.Instruction][]accSite{}
		for _, s := range sites {
			byInstr[s.at] = append(byInstr[s.at], s)
		}
		badAt := map[ssa.Instruction]string{}
		okAt := map[ssa.Instruction]int{}
		walkPaths(fn, func(in ssa.Instruction) bool { return len(byInstr[in]) > 0 }, func(p *pathState, in ssa.Instruction) {
			for _, s := range byInstr[in] {
				established := false
				for _, pv := range s.prevs {
					if p.eval(pv) == nsNil {
						established = true
					}
				}
				for cond, truth := range p.bools {
					op, x, y, isCmp := ssax.CmpOp(cond)
					if !isCmp {
						continue
					}
					if !truth {
						op = ssax.Negate(op)
					}
					cands := []ssa.Value{s.cand}
					switch {
					case isPosCallOn(x, p, cands) && isPosCallOn(y, p, s.prevs) && (op == token.GEQ || op == token.GTR):
						established = true
					case isPosCallOn(x, p, s.prevs) && isPosCallOn(y, p, cands) && (op == token.LEQ || op == token.LSS):
						established = true
					}
				}
				if established {
					okAt[in]++
				} else if badAt[in] == "" {
					badAt[in] = s.where
				}
			}
		})
		for _, s := range sites {
			name := c.name(fn)
			if w, bad := badAt[s.at]; bad {
				c.R.Violation(rule, name+" replaces the accumulated error without comparing positions", name, c.P.InstrPos(s.at), w+": on some path the accumulated error is replaced although neither 'it is nil' nor 'the candidate is at least as far' has been established — the recorded error can move backwards, and the reported position falls short of the furthest failure")
				delete(badAt, s.at)
			} else if okAt[s.at] > 0 {
				c.R.Hold(rule, name+" @"+c.P.InstrPos(s.at), fmt.Sprintf("%s: %d path(s), each with accumulator nil or candidate not before it", s.where, okAt[s.at]))
				okAt[s.at] = 0
			}
		}
	}
}
