package rules

import (
	"go/constant"
	"go/token"
	"go/types"

	"golang.org/x/tools/go/ssa"

	"pv/internal/ssax"
)

// Finite-domain evaluation of pure byte predicates: the whitespace alphabet of the skipping loop is decided by
// folding the loop's conditions for each of the 256 byte values (a constant-set computation on the SSA; nothing of
// the library is executed). Helper predicates extracted by a refactoring (isWhitespace(b), isNewLine(b)) are folded
// through, so the rule does not depend on where the comparisons are written.

type bval struct {
	known bool
	i     int64
	b     bool
	isB   bool
}

type benv map[ssa.Value]bval

// foldParserCount, when set, is the value len() of any []parsley.Parser takes during a fold.
var foldParserCount *int64

// foldBoolField, when set, is the value every bool field of a receiver object takes during a fold (the allow-empty
// flag of a helper object that replaced captured variables).
var foldBoolField *bool

// foldValue evaluates v under env; unknown values yield known=false.
func foldValue(v ssa.Value, env benv, depth int) bval {
	if r, ok := env[v]; ok {
		return r
	}
	if depth > 30 {
		return bval{}
	}
	switch x := v.(type) {
	case *ssa.Const:
		if x.Value == nil {
			return bval{}
		}
		switch x.Value.Kind() {
		case constant.Int:
			if k, ok := constant.Int64Val(x.Value); ok {
				return bval{known: true, i: k}
			}
		case constant.Bool:
			return bval{known: true, isB: true, b: constant.BoolVal(x.Value)}
		}
	case *ssa.Convert:
		r := foldValue(x.X, env, depth+1)
		if r.known && !r.isB {
			if bt, ok := x.Type().Underlying().(*types.Basic); ok {
				switch bt.Kind() {
				case types.Uint8:
					r.i &= 0xFF
				case types.Int8:
					r.i = int64(int8(r.i))
				}
			}
			return r
		}
	case *ssa.ChangeType:
		return foldValue(x.X, env, depth+1)
	case *ssa.Field:
		if bt, ok := x.Type().Underlying().(*types.Basic); ok && bt.Kind() == types.Bool && foldBoolField != nil {
			if _, isParam := x.X.(*ssa.Parameter); isParam {
				return bval{known: true, isB: true, b: *foldBoolField}
			}
		}
	case *ssa.UnOp:
		if x.Op == token.NOT {
			r := foldValue(x.X, env, depth+1)
			if r.known && r.isB {
				r.b = !r.b
				return r
			}
		}
		if x.Op == token.MUL {
			if fa, ok := x.X.(*ssa.FieldAddr); ok && foldBoolField != nil {
				if bt, ok := x.Type().Underlying().(*types.Basic); ok && bt.Kind() == types.Bool {
					_, isParam := fa.X.(*ssa.Parameter)
					if al, isLocal := fa.X.(*ssa.Alloc); isParam || isLocal && !al.Heap {
						return bval{known: true, isB: true, b: *foldBoolField}
					}
				}
			}
			// a captured variable with a value supplied by the caller of the fold
			if fv, ok := x.X.(*ssa.FreeVar); ok {
				if r, ok := env[fv]; ok {
					return r
				}
			}
		}
	case *ssa.BinOp:
		a, b := foldValue(x.X, env, depth+1), foldValue(x.Y, env, depth+1)
		if !a.known || !b.known || a.isB != b.isB {
			return bval{}
		}
		if a.isB {
			switch x.Op {
			case token.EQL:
				return bval{known: true, isB: true, b: a.b == b.b}
			case token.NEQ:
				return bval{known: true, isB: true, b: a.b != b.b}
			}
			return bval{}
		}
		switch x.Op {
		case token.EQL:
			return bval{known: true, isB: true, b: a.i == b.i}
		case token.NEQ:
			return bval{known: true, isB: true, b: a.i != b.i}
		case token.LSS:
			return bval{known: true, isB: true, b: a.i < b.i}
		case token.LEQ:
			return bval{known: true, isB: true, b: a.i <= b.i}
		case token.GTR:
			return bval{known: true, isB: true, b: a.i > b.i}
		case token.GEQ:
			return bval{known: true, isB: true, b: a.i >= b.i}
		case token.ADD:
			return bval{known: true, i: a.i + b.i}
		case token.SUB:
			return bval{known: true, i: a.i - b.i}
		case token.REM:
			if b.i != 0 {
				return bval{known: true, i: a.i % b.i}
			}
		case token.OR:
			return bval{known: true, i: a.i | b.i}
		case token.AND:
			return bval{known: true, i: a.i & b.i}
		}
	case *ssa.Call:
		// the length of a parser list, when the caller of the fold has fixed the number of parsers
		if bi, ok := x.Call.Value.(*ssa.Builtin); ok && bi.Name() == "len" && foldParserCount != nil && len(x.Call.Args) == 1 {
			if sl, ok := x.Call.Args[0].Type().Underlying().(*types.Slice); ok && ssax.NamedIs(sl.Elem(), "parsley", "Parser") {
				return bval{known: true, i: *foldParserCount}
			}
		}
		// a pure helper of the library: fold its body
		if sc := x.Call.StaticCallee(); sc != nil && len(sc.Blocks) > 0 && !x.Call.IsInvoke() {
			args := make([]bval, len(x.Call.Args))
			for i, a := range x.Call.Args {
				args[i] = foldValue(a, env, depth+1)
			}
			return foldFunc(sc, args, depth+1)
		}
	}
	return bval{}
}

// foldFunc evaluates a pure function on (partially) known arguments by following its control flow.
func foldFunc(fn *ssa.Function, args []bval, depth int) bval {
	return foldFuncEnv(fn, args, nil, depth)
}

// foldFuncEnv additionally takes values for captured variables.
func foldFuncEnv(fn *ssa.Function, args []bval, captured benv, depth int) bval {
	ret, env, _ := foldToReturn(fn, args, captured, depth)
	if ret == nil || len(ret.Results) != 1 {
		return bval{}
	}
	return foldValue(ret.Results[0], env, depth+1)
}

// foldToReturn follows the control flow of a pure function on (partially) known arguments and yields the return it
// reaches, the values known there, and which edge every phi on the way took. nil when a branch is not decided by the
// known values or the function is not pure.
func foldToReturn(fn *ssa.Function, args []bval, captured benv, depth int) (*ssa.Return, benv, map[*ssa.Phi]ssa.Value) {
	if depth > 30 || len(fn.Blocks) == 0 {
		return nil, nil, nil
	}
	env := benv{}
	for k, v := range captured {
		env[k] = v
	}
	for i, p := range fn.Params {
		if i < len(args) && args[i].known {
			env[p] = args[i]
		}
	}
	took := map[*ssa.Phi]ssa.Value{}
	blk := fn.Blocks[0]
	var from *ssa.BasicBlock
	for steps := 0; steps < 200; steps++ {
		for _, in := range blk.Instrs {
			switch x := in.(type) {
			case *ssa.Phi:
				if from != nil {
					for i, p := range blk.Preds {
						if p == from {
							e := x.Edges[i]
							if ph, ok := e.(*ssa.Phi); ok {
								if t, ok := took[ph]; ok {
									e = t
								}
							}
							took[x] = e
							if r := foldValue(x.Edges[i], env, depth+1); r.known {
								env[x] = r
							} else {
								delete(env, x)
							}
						}
					}
				}
			case *ssa.Store:
				// spilling a parameter (a value receiver) into a local is not an effect
				if al, ok := x.Addr.(*ssa.Alloc); ok && !al.Heap {
					if _, isParam := x.Val.(*ssa.Parameter); isParam {
						continue
					}
				}
				return nil, nil, nil // not pure
			case *ssa.MapUpdate, *ssa.Go, *ssa.Defer, *ssa.Send, *ssa.Panic:
				return nil, nil, nil // not pure
			case *ssa.Return:
				return x, env, took
			case *ssa.If:
				c := foldValue(x.Cond, env, depth+1)
				if !c.known || !c.isB {
					return nil, nil, nil
				}
				from = blk
				if c.b {
					blk = blk.Succs[0]
				} else {
					blk = blk.Succs[1]
				}
			case *ssa.Jump:
				from = blk
				blk = blk.Succs[0]
			case ssa.Value:
				if r := foldValue(x, env, depth+1); r.known {
					env[x] = r
				}
			}
		}
		if len(blk.Instrs) == 0 {
			return nil, nil, nil
		}
	}
	return nil, nil, nil
}

// loopByteOutcome explores the loop body for one byte value: does some path continue the loop, does some path leave
// it after a byte-dependent test, does some path reach block `mark`.
type loopOutcome struct {
	continues, rejected, marks bool
}

func loopByteOutcome(head *ssa.BasicBlock, isByte func(ssa.Value) bool, v int64, mark *ssa.BasicBlock) loopOutcome {
	var out loopOutcome
	inLoop := func(b *ssa.BasicBlock) bool { return head.Dominates(b) && reachesBlock(b, head) }
	type st struct {
		b       *ssa.BasicBlock
		sawByte bool
	}
	seen := map[st]bool{}
	var walk func(b *ssa.BasicBlock, from *ssa.BasicBlock, sawByte bool, env benv)
	walk = func(b *ssa.BasicBlock, from *ssa.BasicBlock, sawByte bool, env benv) {
		if b == head && from != nil {
			out.continues = true
			return
		}
		if !inLoop(b) {
			if sawByte {
				out.rejected = true
			}
			return
		}
		if seen[st{b, sawByte}] {
			return
		}
		seen[st{b, sawByte}] = true
		if b == mark {
			out.marks = true
		}
		e2 := benv{}
		for k, val := range env {
			e2[k] = val
		}
		for _, in := range b.Instrs {
			if ph, ok := in.(*ssa.Phi); ok {
				if from != nil {
					for i, p := range b.Preds {
						if p == from {
							if r := foldValue(ph.Edges[i], e2, 0); r.known {
								e2[ph] = r
							}
						}
					}
				}
				continue
			}
			if val, ok := in.(ssa.Value); ok {
				if isByte(val) {
					e2[val] = bval{known: true, i: v}
				} else if r := foldValue(val, e2, 0); r.known {
					e2[val] = r
				}
			}
		}
		switch t := b.Instrs[len(b.Instrs)-1].(type) {
		case *ssa.If:
			c := foldValue(t.Cond, e2, 0)
			dep := dependsOnByte(t.Cond, isByte, map[ssa.Value]bool{})
			if c.known && c.isB {
				if c.b {
					walk(b.Succs[0], b, sawByte || dep, e2)
				} else {
					walk(b.Succs[1], b, sawByte || dep, e2)
				}
			} else {
				walk(b.Succs[0], b, sawByte || dep, e2)
				walk(b.Succs[1], b, sawByte || dep, e2)
			}
		case *ssa.Jump:
			walk(b.Succs[0], b, sawByte, e2)
		}
	}
	walk(head, nil, false, benv{})
	return out
}

func reachesBlock(from, to *ssa.BasicBlock) bool {
	if from == to {
		return true
	}
	seen := map[*ssa.BasicBlock]bool{}
	stack := append([]*ssa.BasicBlock{}, from.Succs...)
	for len(stack) > 0 {
		b := stack[len(stack)-1]
		stack = stack[:len(stack)-1]
		if seen[b] {
			continue
		}
		seen[b] = true
		if b == to {
			return true
		}
		stack = append(stack, b.Succs...)
	}
	return false
}

func dependsOnByte(v ssa.Value, isByte func(ssa.Value) bool, seen map[ssa.Value]bool) bool {
	if seen[v] {
		return false
	}
	seen[v] = true
	if isByte(v) {
		return true
	}
	switch x := v.(type) {
	case *ssa.BinOp:
		return dependsOnByte(x.X, isByte, seen) || dependsOnByte(x.Y, isByte, seen)
	case *ssa.UnOp:
		return dependsOnByte(x.X, isByte, seen)
	case *ssa.Convert:
		return dependsOnByte(x.X, isByte, seen)
	case *ssa.Phi:
		for _, e := range x.Edges {
			if dependsOnByte(e, isByte, seen) {
				return true
			}
		}
		// a short-circuit phi depends on the conditions selecting its edges
		for _, p := range x.Block().Preds {
			if ifi, ok := p.Instrs[len(p.Instrs)-1].(*ssa.If); ok && dependsOnByte(ifi.Cond, isByte, seen) {
				return true
			}
		}
	case *ssa.Call:
		for _, a := range x.Call.Args {
			if dependsOnByte(a, isByte, seen) {
				return true
			}
		}
	}
	return false
}
