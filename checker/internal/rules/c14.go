package rules

import (
	"fmt"
	"go/token"
	"go/types"
	"sort"
	"strings"

	"golang.org/x/tools/go/ssa"

	"pv/internal/own"
	"pv/internal/report"
	"pv/internal/ssax"
)

func init() {
	register(&Property{ID: "C14", Run: runC14, Meta: report.Meta{ID: "C14",
		Explanation: "DECIDED (for all interleavings at once; no schedule is explored and no race detector is run): parse-time and construction-time code of the library writes no memory that two runs can share — no store to, or through, a package-level variable outside init and no address of one handed to an external writer, except single sync/atomic read-modify-write operations (R14a, R14d); no escaping closure writes a captured variable (R14b); no Parse method writes through its receiver, the shared grammar object (R14c). Under A-user this is sufficient for the absence of data races between runs that have their own Context/Reader/File, and with R03e (no shared state is read except immutable grammar data) for each run computing what it computes alone. NOT DECIDED: user code; builder methods called concurrently on one grammar object; races inside one run's own Context.",
		Assumptions: commonAssumptions, TrustedBase: commonTrusted}})
}

func isInit(fn *ssa.Function) bool {
	return fn.Parent() == nil && (fn.Name() == "init" || strings.HasPrefix(fn.Name(), "init#"))
}

func runC14(c *Ctx) {
	c.U0()
	const ra, rb, rc, rd = "R14a package-level-variables", "R14b captured-grammar-state", "R14c shared-receivers", "R14d atomic-read-modify-write"
	c.R.Rule(ra, "outside init, nothing stores to or through a package-level variable or passes its address to an external writer, except sync/atomic", 5)
	c.R.Rule(rb, "no closure that outlives its creator writes a captured variable (directly or through a captured reference) at parse time", 10)
	c.R.Rule(rc, "no function with the parser signature writes through its receiver", 3)
	c.R.Rule(rd, "an atomically accessed package-level variable is updated only by single read-modify-write operations, never by a Store of a value derived from a Load", 1)
	a := c.Own()
	if !a.Converged() {
		c.R.Undecided(ra, "fixpoint", "-", "-", "ownership analysis did not converge")
	}

	// inventory of package-level variables
	type gv struct {
		name   string
		g      *ssa.Global
		writes int
		atomic int
	}
	globals := map[string]*gv{}
	for _, k := range c.P.LibKeys() {
		sp := c.P.SSAPkg[k]
		for _, m := range sp.Members {
			if g, ok := m.(*ssa.Global); ok && !strings.HasPrefix(g.Name(), "init$") {
				globals[k+"."+g.Name()] = &gv{name: k + "." + g.Name(), g: g}
			}
		}
	}

	// R14a / R14d
	for _, fn := range c.P.LibFuncs {
		if isInit(fn) || fn.Synthetic != "" {
			continue
		}
		fi := a.Info[fn]
		for _, e := range fi.SortedEffects() {
			if e.Root.K != own.RGlobal || e.In != fn || len(e.Chain) != 0 {
				continue
			}
			if strings.Contains(e.Root.Obj, "init$guard") {
				continue
			}
			g := globals[e.Root.Obj]
			site := c.name(fn) + " @" + c.P.InstrPos(e.Instr)
			if e.Atomic {
				if g != nil {
					g.atomic++
				}
				callee := strings.TrimPrefix(e.Via, "extern:")
				if isAtomicRMW(callee) {
					c.R.Hold(ra, site, "single atomic read-modify-write "+callee+" on "+e.Root.Obj)
					c.R.Hold(rd, site, callee+" is one indivisible update of "+e.Root.Obj)
					continue
				}
				// atomic.Store*: fine only when the stored value does not derive from a Load of the same variable
				if ld := storeDerivesFromLoad(e.Instr); ld != nil {
					c.R.Violation(rd, c.name(fn)+" load+store "+e.Root.Obj, c.name(fn), c.P.InstrPos(e.Instr),
						fmt.Sprintf("%s of %s stores a value computed from an earlier atomic load (%s): two goroutines can load the same value, so the update is lost or duplicated although every access is atomic", callee, e.Root.Obj, c.P.InstrPos(ld)))
				} else {
					c.R.Hold(rd, site, callee+" of a value not derived from a load of "+e.Root.Obj)
				}
				continue
			}
			if g != nil {
				g.writes++
			}
			c.R.Violation(ra, c.name(fn)+" "+e.Via+" "+e.Root.Obj+e.Path, c.name(fn), c.P.InstrPos(e.Instr),
				fmt.Sprintf("%s writes shared package-level state outside init: %s", c.name(fn), a.Describe(e)))
		}
	}
	var inv []string
	for _, k := range sortedKeys(globals) {
		g := globals[k]
		cls := "read-only after init"
		if g.atomic > 0 {
			cls = "sync/atomic only"
		}
		if g.writes > 0 {
			cls = "WRITTEN outside init"
		}
		inv = append(inv, fmt.Sprintf("%s : %s — %s", k, c.short(g.g.Type().(*types.Pointer).Elem()), cls))
		if g.writes == 0 {
			c.R.Hold(ra, "var "+k, cls)
		}
	}
	c.R.Extra["package_level_variables"] = inv

	// R14b: closures in parser scope
	var clos []string
	for _, fn := range c.S.Sorted(c.S.Parser) {
		if fn.Parent() == nil || fn.Synthetic != "" {
			continue
		}
		esc := c.S.Escapes(fn)
		var caps []string
		for _, fv := range fn.FreeVars {
			caps = append(caps, fv.Name())
		}
		clos = append(clos, fmt.Sprintf("%s captures [%s] escapes=%v", c.name(fn), strings.Join(caps, " "), esc))
		fi := a.Info[fn]
		bad := 0
		for _, e := range fi.SortedEffects() {
			if e.Root.K != own.RFreeVar || e.In != fn || len(e.Chain) != 0 {
				continue
			}
			if !esc {
				// the variable lives in the creating activation; if that creator is itself an escaping closure's
				// captured variable the engine has re-attributed the write to the creator, where it is judged
				continue
			}
			if e.Atomic {
				continue
			}
			bad++
			c.R.Violation(rb, c.name(fn)+" writes captured "+e.Root.Obj+e.Path, c.name(fn), c.P.InstrPos(e.Instr),
				fmt.Sprintf("%s is returned from its constructor and shared by all parses, and writes its captured variable %q: %s", c.name(fn), e.Root.Obj, a.Describe(e)))
		}
		// effects re-attributed from nested non-escaping closures
		for _, e := range fi.SortedEffects() {
			if e.Root.K != own.RFreeVar || e.In == fn || !esc || e.Atomic {
				continue
			}
			bad++
			c.R.Violation(rb, c.name(fn)+" (nested) writes captured "+e.Root.Obj+e.Path, c.name(fn), c.P.InstrPos(e.Instr),
				fmt.Sprintf("code called by %s writes its captured variable %q: %s", c.name(fn), e.Root.Obj, a.Describe(e)))
		}
		if bad == 0 && len(fn.FreeVars) > 0 {
			c.R.Hold(rb, c.name(fn), fmt.Sprintf("captures [%s], escapes=%v, no write through them", strings.Join(caps, " "), esc))
		}
	}
	c.R.Extra["closures_in_parser_scope"] = clos

	// R14c: parse roots with receivers
	for _, fn := range c.S.ParseRoots {
		if fn.Signature.Recv() == nil || fn.Synthetic != "" {
			continue
		}
		if c.S.Internal(fn) {
			c.R.Exempt("per-call state "+c.name(fn), "method of an unexported type, every caller is a static library call passing a freshly allocated receiver (checked by the engine at those callers)")
			continue
		}
		fi := a.Info[fn]
		bad := 0
		for _, e := range fi.SortedEffects() {
			if e.Root.K == own.RParam && e.Root.ID == 0 && !e.Atomic {
				bad++
				if bad > 3 {
					continue
				}
				c.R.Violation(rc, c.name(fn)+" writes receiver"+e.Path, c.name(fn), c.P.InstrPos(e.Instr),
					fmt.Sprintf("%s writes through its receiver, the grammar object shared by all concurrent parses: %s", c.name(fn), a.Describe(e)))
			}
		}
		if bad == 0 {
			c.R.Hold(rc, c.name(fn), "receiver "+c.short(fn.Signature.Recv().Type())+" is only read")
		}
	}
	// builder methods must not be in parser scope
	for _, fn := range c.S.Ctor {
		if fn.Signature.Recv() == nil {
			continue
		}
		fi := a.Info[fn]
		writesRecv := false
		for _, e := range fi.SortedEffects() {
			if e.Root.K == own.RParam && e.Root.ID == 0 {
				writesRecv = true
			}
		}
		if writesRecv {
			c.R.Exempt("builder method "+c.name(fn), "writes its receiver at construction time; verified not reachable from any Parser.Parse")
		}
	}
}

func sortedKeys[V any](m map[string]V) []string {
	var ks []string
	for k := range m {
		ks = append(ks, k)
	}
	sort.Strings(ks)
	return ks
}

func isAtomicRMW(callee string) bool {
	n := callee[strings.LastIndex(callee, ".")+1:]
	return strings.HasPrefix(n, "Add") || strings.HasPrefix(n, "CompareAndSwap") || strings.HasPrefix(n, "Swap") || strings.HasPrefix(n, "And") || strings.HasPrefix(n, "Or")
}

// storeDerivesFromLoad: the call is atomic.Store*(addr, v) and v data-depends on an atomic.Load* result.
func storeDerivesFromLoad(in ssa.Instruction) ssa.Instruction {
	call, ok := in.(ssa.CallInstruction)
	if !ok || len(call.Common().Args) < 2 {
		return nil
	}
	seen := map[ssa.Value]bool{}
	var walk func(v ssa.Value) ssa.Instruction
	walk = func(v ssa.Value) ssa.Instruction {
		if seen[v] {
			return nil
		}
		seen[v] = true
		switch x := v.(type) {
		case *ssa.Call:
			if f := x.Call.StaticCallee(); f != nil && f.Pkg != nil && f.Pkg.Pkg.Path() == "sync/atomic" && strings.HasPrefix(f.Name(), "Load") {
				return x
			}
			return nil
		case *ssa.BinOp:
			if r := walk(x.X); r != nil {
				return r
			}
			return walk(x.Y)
		case *ssa.UnOp:
			if al, ok := x.X.(*ssa.Alloc); ok && x.Op == token.MUL && al.Referrers() != nil {
				for _, r := range *al.Referrers() {
					if st, ok := r.(*ssa.Store); ok && st.Addr == al {
						if res := walk(st.Val); res != nil {
							return res
						}
					}
				}
				return nil
			}
			return walk(x.X)
		case *ssa.Convert:
			return walk(x.X)
		case *ssa.ChangeType:
			return walk(x.X)
		case *ssa.Phi:
			for _, e := range x.Edges {
				if r := walk(e); r != nil {
					return r
				}
			}
		}
		return nil
	}
	_ = ssax.Strip
	return walk(call.Common().Args[1])
}
