package rules

import (
	"go/token"
	"go/types"

	"golang.org/x/tools/go/ssa"

	"pv/internal/own"
	"pv/internal/ssax"
)

// textModel names the roles of the unexported fields of text.File / text.Reader / ast.NonTerminalNode, discovered from
// the exported methods that define those roles, so that renaming a private field does not unsettle any rule.
type textModel struct {
	ok                             bool
	why                            string
	FileT, ReaderT                 *types.Named
	Offset, Len, Data, Lines       string // fields of File
	ReaderFile, ReaderCache        string // fields of Reader
	NTInterp, NTSchema, NTChildren string // fields of ast.NonTerminalNode
	SetLines                       *ssa.Function
	fileFieldVars                  map[string]*types.Var
}

func (c *Ctx) model() *textModel {
	if c.tm != nil {
		return c.tm
	}
	m := &textModel{fileFieldVars: map[string]*types.Var{}}
	c.tm = m
	fail := func(s string) *textModel { m.why = s; return m }
	ft, _ := c.lookupType("text", "File").(*types.Named)
	rt, _ := c.lookupType("text", "Reader").(*types.Named)
	if ft == nil || rt == nil {
		return fail("text.File / text.Reader not found")
	}
	m.FileT, m.ReaderT = ft, rt
	fst, ok := ft.Underlying().(*types.Struct)
	if !ok {
		return fail("text.File is not a struct")
	}
	for i := 0; i < fst.NumFields(); i++ {
		m.fileFieldVars[fst.Field(i).Name()] = fst.Field(i)
	}
	method := func(recv *types.Named, name string) *ssa.Function {
		for _, fn := range c.P.LibFuncs {
			if fn.Synthetic != "" || fn.Name() != name || fn.Signature.Recv() == nil {
				continue
			}
			if n := namedOfType(fn.Signature.Recv().Type()); n == recv {
				return fn
			}
		}
		return nil
	}
	// offset: the field SetOffset stores its parameter into
	if so := method(ft, "SetOffset"); so != nil && len(so.Params) == 2 {
		for _, b := range so.Blocks {
			for _, in := range b.Instrs {
				if st, ok := in.(*ssa.Store); ok && st.Val == ssa.Value(so.Params[1]) {
					if fa, ok := st.Addr.(*ssa.FieldAddr); ok {
						m.Offset = fieldVar(fa).Name()
					}
				}
			}
		}
	}
	// len: the field Len() returns
	if lf := method(ft, "Len"); lf != nil {
		for _, r := range ssax.Returns(lf) {
			if _, f, ok := fieldLoad(r.Results[0]); ok {
				m.Len = f
			}
		}
	}
	// data: the field whose length the constructor stores into Len; lines: the []int field
	for _, fn := range c.P.LibFuncs {
		for _, b := range fn.Blocks {
			for _, in := range b.Instrs {
				st, ok := in.(*ssa.Store)
				if !ok {
					continue
				}
				fa, ok := st.Addr.(*ssa.FieldAddr)
				if !ok || fieldVar(fa) == nil || fieldVar(fa).Name() != m.Len || namedOfType(fa.X.Type()) != ft {
					continue
				}
				if cl, ok := st.Val.(*ssa.Call); ok {
					if bi, ok := cl.Call.Value.(*ssa.Builtin); ok && bi.Name() == "len" {
						if _, f, ok := fieldLoad(cl.Call.Args[0]); ok {
							m.Data = f
						} else {
							// len(v) where v is the very value the same function stores into a field of the same object
							for _, b2 := range fn.Blocks {
								for _, in2 := range b2.Instrs {
									if st2, ok := in2.(*ssa.Store); ok && st2.Val == cl.Call.Args[0] {
										if fa2, ok := st2.Addr.(*ssa.FieldAddr); ok && fa2.X == fa.X && fieldVar(fa2) != nil {
											m.Data = fieldVar(fa2).Name()
										}
									}
								}
							}
						}
					}
				}
			}
		}
	}
	for i := 0; i < fst.NumFields(); i++ {
		if sl, ok := fst.Field(i).Type().Underlying().(*types.Slice); ok {
			if bt, ok := sl.Elem().Underlying().(*types.Basic); ok && bt.Kind() == types.Int {
				m.Lines = fst.Field(i).Name()
			}
		}
	}
	rst, ok := rt.Underlying().(*types.Struct)
	if !ok {
		return fail("text.Reader is not a struct")
	}
	for i := 0; i < rst.NumFields(); i++ {
		f := rst.Field(i)
		if namedOfType(f.Type()) == ft {
			m.ReaderFile = f.Name()
		}
		if _, isMap := f.Type().Underlying().(*types.Map); isMap {
			m.ReaderCache = f.Name()
		}
	}
	// NonTerminalNode
	if nt, _ := c.lookupType("ast", "NonTerminalNode").(*types.Named); nt != nil {
		if st, ok := nt.Underlying().(*types.Struct); ok {
			for i := 0; i < st.NumFields(); i++ {
				if ssax.NamedIs(st.Field(i).Type(), "parsley", "Interpreter") {
					m.NTInterp = st.Field(i).Name()
				}
			}
		}
		for name, dst := range map[string]*string{"Schema": &m.NTSchema, "Children": &m.NTChildren} {
			if f := method(nt, name); f != nil {
				for _, r := range ssax.Returns(f) {
					if _, fld, ok := fieldLoad(r.Results[0]); ok {
						*dst = fld
					}
				}
			}
		}
	}
	// the function(s) storing the line table
	for _, fn := range c.P.LibFuncs {
		if fn.Synthetic != "" {
			continue
		}
		for _, b := range fn.Blocks {
			for _, in := range b.Instrs {
				if st, ok := in.(*ssa.Store); ok {
					if fa, ok := st.Addr.(*ssa.FieldAddr); ok && fieldVar(fa) != nil && fieldVar(fa).Name() == m.Lines && namedOfType(fa.X.Type()) == ft {
						m.SetLines = fn
					}
				}
			}
		}
	}
	for what, v := range map[string]string{"offset": m.Offset, "len": m.Len, "data": m.Data, "lines": m.Lines, "reader.file": m.ReaderFile, "interpreter": m.NTInterp, "schema": m.NTSchema, "children": m.NTChildren} {
		if v == "" {
			return fail("role " + what + " not discovered")
		}
	}
	m.ok = true
	return m
}

func namedOfType(t types.Type) *types.Named {
	if p, ok := types.Unalias(t).(*types.Pointer); ok {
		t = p.Elem()
	}
	n, _ := types.Unalias(t).(*types.Named)
	return n
}

// fieldsWritten: names of struct fields the function (with its callees) stores to in memory it did not allocate.
func (c *Ctx) fieldsWritten(fn *ssa.Function) map[string]bool {
	out := map[string]bool{}
	fi := c.Own().Info[fn]
	if fi == nil {
		return out
	}
	for _, e := range fi.SortedEffects() {
		if e.Root.K != own.RFresh && e.Field != "" && e.Via == "store" {
			out[e.Field] = true
		}
	}
	return out
}

var _ = token.MUL
