package rules

import (
	"fmt"
	"go/token"
	"go/types"

	"golang.org/x/tools/go/ssa"

	"pv/internal/lin"
	"pv/internal/ssax"
)

// ruleR01g: Optional(p) = p | empty. On every path the returned node is AppendNode(<p's node>, EmptyNode(pos)); the
// empty node alone is enough only where p's node is known to be nil.
func (c *Ctx) ruleR01g(rule string) {
	c.R.Rule(rule, "combinator.Optional returns, on every path, the wrapped parser's alternatives together with the empty match (the empty match alone only where the wrapped parser returned no node)", 1)
	ctor := c.P.Func("combinator.Optional")
	if ctor == nil {
		c.R.Exempt("combinator.Optional", "not found: not decided")
		return
	}
	var fn *ssa.Function
	for _, f := range append([]*ssa.Function{ctor}, ctor.AnonFuncs...) {
		if ssax.IsParserSig(f.Signature) {
			fn = f
		}
	}
	if fn == nil {
		// a method value of a helper object
		for _, b := range ctor.Blocks {
			for _, in := range b.Instrs {
				if mc, ok := in.(*ssa.MakeClosure); ok {
					g := mc.Fn.(*ssa.Function)
					for _, call := range ssax.Calls(g) {
						if sc := call.Common().StaticCallee(); sc != nil && c.P.InLib(sc) && len(sc.Params) > 0 && ssax.IsParserSig(g.Signature) {
							fn = sc
						}
					}
				}
			}
		}
	}
	if fn == nil {
		c.R.Exempt("combinator.Optional", "its parser function was not recognised: not decided")
		return
	}
	var wrapped *ssa.Call
	for _, call := range ssax.Calls(fn) {
		if cl, ok := call.(*ssa.Call); ok && ssax.IsParseCall(cl) {
			wrapped = cl
		}
	}
	if wrapped == nil {
		c.R.Exempt("combinator.Optional", "no call of the wrapped parser found: not decided")
		return
	}
	name := c.name(fn)
	isEmpty := func(v ssa.Value) bool {
		for i := 0; i < 6 && v != nil; i++ {
			if ssax.NamedIs(v.Type(), "ast", "EmptyNode") {
				return true
			}
			switch x := v.(type) {
			case *ssa.MakeInterface:
				v = x.X
			case *ssa.ChangeInterface:
				v = x.X
			case *ssa.Call:
				sc := x.Call.StaticCallee()
				return sc != nil && sc.Name() == "EmptyNode" && sc.Pkg != nil && sc.Pkg.Pkg.Name() == "ast"
			default:
				return false
			}
		}
		return false
	}
	isRes := func(v ssa.Value) bool { return isExtractOf(v, wrapped, 0) }
	bad := map[*ssa.Return]string{}
	n := map[*ssa.Return]int{}
	walkPaths(fn, isReturn, func(p *pathState, in ssa.Instruction) {
		r := in.(*ssa.Return)
		if len(r.Results) != 3 {
			return
		}
		n[r]++
		v := p.resolve(r.Results[0])
		var resNil nilState = nsUnknown
		for _, e := range ssax.Extracts(wrapped, 0) {
			resNil = p.eval(e)
		}
		switch {
		case isEmpty(v):
			if resNil != nsNil {
				bad[r] = "a path returns the empty match alone although the wrapped parser may have matched: its alternatives are dropped"
			}
			return
		}
		if cl, ok := ssax.Strip(v).(*ssa.Call); ok {
			if sc := cl.Call.StaticCallee(); sc != nil && sc.Name() == "AppendNode" && len(cl.Call.Args) == 2 {
				a0, a1 := p.resolve(cl.Call.Args[0]), p.resolve(cl.Call.Args[1])
				if isRes(a0) && isEmpty(a1) || isEmpty(a0) && isRes(a1) {
					return
				}
			}
		}
		bad[r] = "a path returns the wrapped parser's node without the empty match: Optional(p) followed by something p's match has consumed can no longer succeed, so complete parses are lost"
	})
	for _, r := range ssax.Returns(fn) {
		if msg, isBad := bad[r]; isBad {
			c.R.Violation(rule, name+" drops an alternative", name, c.P.InstrPos(r), msg)
		} else if n[r] > 0 {
			c.R.Hold(rule, name+" return @"+c.P.InstrPos(r), fmt.Sprintf("%d path(s): wrapped alternatives plus the empty match", n[r]))
		}
	}
}

// ruleR09f: the reader narrows a rune to 8 bits (to compare it with one byte of the input) only where the rune is
// proven to be below utf8.RuneSelf.
func (c *Ctx) ruleR09f(rule string) {
	c.R.Rule(rule, "a rune is converted to an 8-bit value (compared with a single input byte) only under facts proving rune < 0x80; otherwise one raw byte stands for a multi-byte character", 1)
	n := 0
	for _, fn := range c.readerFns() {
		var lf *lin.Fn
		for _, b := range fn.Blocks {
			for _, in := range b.Instrs {
				cv, ok := in.(*ssa.Convert)
				if !ok {
					continue
				}
				from, ok1 := cv.X.Type().Underlying().(*types.Basic)
				to, ok2 := cv.Type().Underlying().(*types.Basic)
				if !ok1 || !ok2 || from.Kind() != types.Int32 || (to.Kind() != types.Int8 && to.Kind() != types.Uint8) {
					continue
				}
				if _, isConst := cv.X.(*ssa.Const); isConst {
					continue
				}
				n++
				if lf == nil {
					lf = c.linFn(fn)
				}
				site := c.name(fn) + " rune narrowed @" + c.P.InstrPos(cv)
				if lf.ProveAt(b, lin.Ge(lin.Const(127), lf.Norm(cv.X), "")) {
					c.R.Hold(rule, site, "under rune < 0x80")
				} else {
					c.R.Violation(rule, c.name(fn)+" narrows a non-ASCII rune", c.name(fn), c.P.InstrPos(cv), "the rune is converted to a single byte on a path where it is not known to be < 0x80 (utf8.RuneSelf): runes U+0080..U+00FF are then compared with one raw byte — a real two-byte character is missed and a lone invalid byte matches")
				}
			}
		}
	}
	if n == 0 {
		c.R.Exempt("rune narrowing in the reader", "no rune-to-byte conversion in the reader: nothing to decide")
	}
}

// ruleR06d: the line table has an entry for every line feed. Decided for the byte loop shape (a loop over all of the
// content appending index+1): the append is governed by the test 'byte == 0x0A' only.
func (c *Ctx) ruleR06d(rule string) {
	c.R.Rule(rule, "setLines: in the loop over the whole content, index+1 is appended to the line table exactly when the byte is a line feed (no other condition), so every line feed — including a trailing one — starts a line", 0)
	m := c.model()
	if !m.ok || m.SetLines == nil {
		c.R.Exempt("line table", "the function building the line table was not found: not decided")
		return
	}
	fn := m.SetLines
	name := c.name(fn)
	lf := c.linFn(fn)
	found := false
	for _, b := range fn.Blocks {
		for _, in := range b.Instrs {
			cl, ok := in.(*ssa.Call)
			if !ok {
				continue
			}
			bi, isB := cl.Call.Value.(*ssa.Builtin)
			if !isB || bi.Name() != "append" || len(cl.Call.Args) != 2 {
				continue
			}
			if !c.isLineTableAppend(cl) {
				continue
			}
			head := innermostLoopHeader(b)
			if head == nil {
				continue
			}
			// the loop index over the content
			var idx ssa.Value
			var byteVal ssa.Value
			for _, hb := range fn.Blocks {
				if !head.Dominates(hb) {
					continue
				}
				for _, i2 := range hb.Instrs {
					u, ok := i2.(*ssa.UnOp)
					if !ok || u.Op != token.MUL {
						continue
					}
					ia, ok := u.X.(*ssa.IndexAddr)
					if !ok {
						continue
					}
					if _, f, isLoad := fieldLoad(ia.X); isLoad && f == m.Data && (indexLoopOf(ia.Index, ia.X) != nil || isFullRangeIndex(ia.Index, ia.X)) {
						idx, byteVal = ia.Index, u
					}
				}
			}
			if idx == nil {
				continue // another shape (e.g. bytes.IndexByte): not decided
			}
			found = true
			site := name + " append @" + c.P.InstrPos(cl)
			// the value appended is index+1
			var appended ssa.Value
			if sl, ok := cl.Call.Args[1].(*ssa.Slice); ok {
				if al, ok := sl.X.(*ssa.Alloc); ok && al.Referrers() != nil {
					for _, r := range *al.Referrers() {
						if ia, ok := r.(*ssa.IndexAddr); ok && ia.Referrers() != nil {
							for _, rr := range *ia.Referrers() {
								if st, ok := rr.(*ssa.Store); ok {
									appended = st.Val
								}
							}
						}
					}
				}
			}
			if appended == nil {
				c.R.Exempt(site, "appended value not recognised: not decided")
				continue
			}
			d := lf.Norm(appended).Sub(lf.Norm(idx))
			if !d.IsConst() || d.K != 1 {
				c.R.Violation(rule, name+" line start", name, c.P.InstrPos(cl), "the value appended to the line table is not (index of the line feed) + 1: "+lf.Norm(appended).String()+" — lines start at the wrong offset, so columns and line numbers are off")
				continue
			}
			// governing conditions inside the loop: byte tests only, true exactly for 0x0A
			foreign := ""
			var conds []ssax.Cond
			for _, cd := range ssax.DominatingConds(b) {
				if cd.At == nil || !head.Dominates(cd.At) || cd.At == head {
					continue
				}
				conds = append(conds, cd)
			}
			set := map[int64]bool{}
			for v := int64(0); v < 256 && foreign == ""; v++ {
				env := benv{byteVal: bval{known: true, i: v}}
				all := true
				for _, cd := range conds {
					r := foldValue(cd.Val, env, 0)
					if !r.known || !r.isB {
						foreign = cd.Val.String()
						break
					}
					if r.b != cd.Truth {
						all = false
					}
				}
				if all {
					set[v] = true
				}
			}
			switch {
			case foreign != "":
				c.R.Violation(rule, name+" conditional line start", name, c.P.InstrPos(cl), "whether a line start is recorded depends on "+foreign+", not only on the byte being a line feed: some line feeds (e.g. a trailing one) do not start a line, so positions after them render with the wrong line and column")
			case len(set) != 1 || !set[0x0A]:
				c.R.Violation(rule, name+" line separator", name, c.P.InstrPos(cl), fmt.Sprintf("line starts are recorded after bytes %v; the line separator is the line feed 0x0A only", setStr(set)))
			default:
				c.R.Hold(rule, site, "index+1 appended exactly when the byte is 0x0A")
			}
		}
	}
	if !found {
		found = c.lineTableIndexByte(rule, fn, lf)
	}
	if !found {
		c.R.Exempt("line table", "the line table is built neither by a byte loop over the content nor by a bytes.IndexByte scan: not decided")
	}
}

// lineTableIndexByte decides the other common shape: a cursor off (from 0) advanced by i+1 where
// i = bytes.IndexByte(data[off:], '\n'), appending off+i+1. Every test that governs the append must follow from
// "a line feed was found" (i >= 0, hence off+i+1 <= len(data)); anything stronger skips line feeds.
func (c *Ctx) lineTableIndexByte(rule string, fn *ssa.Function, lf *lin.Fn) bool {
	m := c.model()
	name := c.name(fn)
	for _, b := range fn.Blocks {
		for _, in := range b.Instrs {
			ib, ok := in.(*ssa.Call)
			if !ok || extCallName(ib) != "bytes.IndexByte" || len(ib.Call.Args) != 2 {
				continue
			}
			sl, ok := ib.Call.Args[0].(*ssa.Slice)
			if !ok || sl.Low == nil || sl.High != nil {
				continue
			}
			if _, f, isLoad := fieldLoad(sl.X); !isLoad || f != m.Data {
				continue
			}
			off, isPhi := sl.Low.(*ssa.Phi)
			head := innermostLoopHeader(b)
			if !isPhi || head == nil || off.Block() != head {
				continue
			}
			site := name + " IndexByte scan @" + c.P.InstrPos(ib)
			if k, isC := ssax.ConstInt(ib.Call.Args[1]); !isC || k != 0x0A {
				c.R.Violation(rule, name+" line separator", name, c.P.InstrPos(ib), "the scan looks for a byte other than the line feed 0x0A")
				return true
			}
			// the cursor starts at 0 and continues at off+i+1
			next := lf.Norm(off).Add(lf.Norm(ib)).Add(lin.Const(1))
			okCursor := true
			for k, e := range off.Edges {
				if head.Dominates(head.Preds[k]) {
					if d := lf.Norm(e).Sub(next); !d.IsConst() || d.K != 0 {
						okCursor = false
					}
				} else if z, isC := ssax.ConstInt(e); !isC || z != 0 {
					okCursor = false
				}
			}
			if !okCursor {
				c.R.Violation(rule, name+" scan cursor", name, c.P.InstrPos(off), "the scan does not start at 0 and continue right after each line feed found (off + i + 1): line feeds are skipped or found twice")
				return true
			}
			// the append of off+i+1 into the line table
			var app *ssa.Call
			var appBlock *ssa.BasicBlock
			for _, hb := range fn.Blocks {
				if !head.Dominates(hb) {
					continue
				}
				for _, i2 := range hb.Instrs {
					cl, ok := i2.(*ssa.Call)
					if !ok {
						continue
					}
					if bi, isB := cl.Call.Value.(*ssa.Builtin); isB && bi.Name() == "append" && len(cl.Call.Args) == 2 && c.isLineTableAppend(cl) {
						app, appBlock = cl, hb
					}
				}
			}
			if app == nil {
				return false
			}
			var appended ssa.Value
			if s2, ok := app.Call.Args[1].(*ssa.Slice); ok {
				if al, ok := s2.X.(*ssa.Alloc); ok && al.Referrers() != nil {
					for _, r := range *al.Referrers() {
						if ia, ok := r.(*ssa.IndexAddr); ok && ia.Referrers() != nil {
							for _, rr := range *ia.Referrers() {
								if st, ok := rr.(*ssa.Store); ok {
									appended = st.Val
								}
							}
						}
					}
				}
			}
			if appended == nil {
				return false
			}
			if d := lf.Norm(appended).Sub(next); !d.IsConst() || d.K != 0 {
				c.R.Violation(rule, name+" line start", name, c.P.InstrPos(app), "the value appended to the line table is not (position of the line feed) + 1")
				return true
			}
			// the append runs on every iteration that goes on
			for k := range head.Preds {
				if head.Dominates(head.Preds[k]) && !appBlock.Dominates(head.Preds[k]) {
					c.R.Violation(rule, name+" conditional line start", name, c.P.InstrPos(app), "an iteration can go on without recording the line start it found")
					return true
				}
			}
			// premises: a line feed was found
			dataLen := lf.LenOf(sl.X)
			prem := []lin.Cons{
				lin.Ge(lf.Norm(ib), lin.Const(0), "a line feed was found"),
				lin.Ge(lf.Norm(off), lin.Const(0), "the cursor starts at 0 and only grows"),
				lin.Ge(dataLen, lf.Norm(off).Add(lf.Norm(ib)).Add(lin.Const(1)), "the index found lies inside the remaining content"),
			}
			if base, _, isLoad := fieldLoad(sl.X); isLoad {
				if p, ok := base.(*ssa.Parameter); ok {
					prem = append(prem, lin.Eq(lin.Atom(p.Name()+"."+m.Len), dataLen, "File.len = len(File.data)")...)
				}
			}
			for _, cd := range ssax.DominatingConds(appBlock) {
				if cd.At == nil || !head.Dominates(cd.At) {
					continue
				}
				cons := lf.CondCons(cd.Val, cd.Truth)
				if cons == nil {
					c.R.Violation(rule, name+" conditional line start", name, c.P.InstrPos(app), "whether a line start is recorded depends on "+cd.Val.String()+", which is not a statement about the scan")
					return true
				}
				for _, g := range cons {
					if !lin.Prove(prem, g) {
						c.R.Violation(rule, name+" conditional line start", name, c.P.InstrPos(app), "a line start is recorded only when "+g.E.String()+" >= 0 holds as well, which does not follow from 'a line feed was found': some line feeds (an empty line, a trailing line feed) do not start a line, so positions after them render with the wrong line and column")
						return true
					}
				}
			}
			c.R.Hold(rule, site, "off+i+1 appended for every line feed found; nothing else governs it")
			return true
		}
	}
	return false
}

// isLineTableAppend: the append grows the line table: its first argument is the table's field, or its result ends up
// (through the loop's phis) in a store to that field.
func (c *Ctx) isLineTableAppend(cl *ssa.Call) bool {
	m := c.model()
	if _, f, isLoad := fieldLoad(cl.Call.Args[0]); isLoad && f == m.Lines {
		return true
	}
	if sl, ok := cl.Type().Underlying().(*types.Slice); !ok || !types.Identical(sl.Elem(), types.Typ[types.Int]) {
		return false
	}
	seen := map[ssa.Value]bool{}
	var walk func(v ssa.Value) bool
	walk = func(v ssa.Value) bool {
		if seen[v] || v.Referrers() == nil {
			return false
		}
		seen[v] = true
		for _, r := range *v.Referrers() {
			switch x := r.(type) {
			case *ssa.Phi:
				if walk(x) {
					return true
				}
			case *ssa.Store:
				if fa, ok := x.Addr.(*ssa.FieldAddr); ok && x.Val == v && fieldVar(fa) != nil && fieldVar(fa).Name() == m.Lines && namedOfType(fa.X.Type()) == m.FileT {
					return true
				}
			}
		}
		return false
	}
	return walk(cl)
}
