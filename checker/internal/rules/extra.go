package rules

import (
	"fmt"
	"go/token"
	"go/types"

	"golang.org/x/tools/go/ssa"

	"pv/internal/lin"
	"pv/internal/ssax"
)

// ruleR01g: Optional(p) = p | empty. On every path the returned node is AppendNode(<p's node>, EmptyNode(pos)); the
// empty node alone is enough only where p's node is known to be nil.
func (c *Ctx) ruleR01g(rule string) {
	c.R.Rule(rule, "combinator.Optional returns, on every path, the wrapped parser's alternatives together with the empty match (the empty match alone only where the wrapped parser returned no node)", 1)
	ctor := c.P.Func("combinator.Optional")
	if ctor == nil {
		c.R.Exempt("combinator.Optional", "not found: not decided")
		return
	}
	var fn *ssa.Function
	for _, f := range append([]*ssa.Function{ctor}, ctor.AnonFuncs...) {
		if ssax.IsParserSig(f.Signature) {
			fn = f
		}
	}
	if fn == nil {
		// a method value of a helper object
		for _, b := range ctor.Blocks {
			for _, in := range b.Instrs {
				if mc, ok := in.(*ssa.MakeClosure); ok {
					g := mc.Fn.(*ssa.Function)
					for _, call := range ssax.Calls(g) {
						if sc := call.Common().StaticCallee(); sc != nil && c.P.InLib(sc) && len(sc.Params) > 0 && ssax.IsParserSig(g.Signature) {
							fn = sc
						}
					}
				}
			}
		}
	}
	if fn == nil {
		c.R.Exempt("combinator.Optional", "its parser function was not recognised: not decided")
		return
	}
	var wrapped *ssa.Call
	for _, call := range ssax.Calls(fn) {
		if cl, ok := call.(*ssa.Call); ok && ssax.IsParseCall(cl) {
			wrapped = cl
		}
	}
	if wrapped == nil {
		c.R.Exempt("combinator.Optional", "no call of the wrapped parser found: not decided")
		return
	}
	name := c.name(fn)
	isEmpty := func(v ssa.Value) bool {
		for i := 0; i < 6 && v != nil; i++ {
			if ssax.NamedIs(v.Type(), "ast", "EmptyNode") {
				return true
			}
			switch x := v.(type) {
			case *ssa.MakeInterface:
				v = x.X
			case *ssa.ChangeInterface:
				v = x.X
			case *ssa.Call:
				sc := x.Call.StaticCallee()
				return sc != nil && sc.Name() == "EmptyNode" && sc.Pkg != nil && sc.Pkg.Pkg.Name() == "ast"
			default:
				return false
			}
		}
		return false
	}
	isRes := func(v ssa.Value) bool { return isExtractOf(v, wrapped, 0) }
	bad := map[*ssa.Return]string{}
	n := map[*ssa.Return]int{}
	walkPaths(fn, isReturn, func(p *pathState, in ssa.Instruction) {
		r := in.(*ssa.Return)
		if len(r.Results) != 3 {
			return
		}
		n[r]++
		v := p.resolve(r.Results[0])
		var resNil nilState = nsUnknown
		for _, e := range ssax.Extracts(wrapped, 0) {
			resNil = p.eval(e)
		}
		switch {
		case isEmpty(v):
			if resNil != nsNil {
				bad[r] = "a path returns the empty match alone although the wrapped parser may have matched: its alternatives are dropped"
			}
			return
		}
		if cl, ok := ssax.Strip(v).(*ssa.Call); ok {
			if sc := cl.Call.StaticCallee(); sc != nil && sc.Name() == "AppendNode" && len(cl.Call.Args) == 2 {
				a0, a1 := p.resolve(cl.Call.Args[0]), p.resolve(cl.Call.Args[1])
				if isRes(a0) && isEmpty(a1) || isEmpty(a0) && isRes(a1) {
					return
				}
			}
		}
		bad[r] = "a path returns the wrapped parser's node without the empty match: Optional(p) followed by something p's match has consumed can no longer succeed, so complete parses are lost"
	})
	for _, r := range ssax.Returns(fn) {
		if msg, isBad := bad[r]; isBad {
			c.R.Violation(rule, name+" drops an alternative", name, c.P.InstrPos(r), msg)
		} else if n[r] > 0 {
			c.R.Hold(rule, name+" return @"+c.P.InstrPos(r), fmt.Sprintf("%d path(s): wrapped alternatives plus the empty match", n[r]))
		}
	}
}

// ruleR09f: the reader narrows a rune to 8 bits (to compare it with one byte of the input) only where the rune is
// proven to be below utf8.RuneSelf.
func (c *Ctx) ruleR09f(rule string) {
	c.R.Rule(rule, "a rune is converted to an 8-bit value (compared with a single input byte) only under facts proving rune < 0x80; otherwise one raw byte stands for a multi-byte character", 1)
	n := 0
	for _, fn := range c.readerFns() {
		var lf *lin.Fn
		for _, b := range fn.Blocks {
			for _, in := range b.Instrs {
				cv, ok := in.(*ssa.Convert)
				if !ok {
					continue
				}
				from, ok1 := cv.X.Type().Underlying().(*types.Basic)
				to, ok2 := cv.Type().Underlying().(*types.Basic)
				if !ok1 || !ok2 || from.Kind() != types.Int32 || (to.Kind() != types.Int8 && to.Kind() != types.Uint8) {
					continue
				}
				if _, isConst := cv.X.(*ssa.Const); isConst {
					continue
				}
				n++
				if lf == nil {
					lf = c.linFn(fn)
				}
				site := c.name(fn) + " rune narrowed @" + c.P.InstrPos(cv)
				if lf.ProveAt(b, lin.Ge(lin.Const(127), lf.Norm(cv.X), "")) {
					c.R.Hold(rule, site, "under rune < 0x80")
				} else {
					c.R.Violation(rule, c.name(fn)+" narrows a non-ASCII rune", c.name(fn), c.P.InstrPos(cv), "the rune is converted to a single byte on a path where it is not known to be < 0x80 (utf8.RuneSelf): runes U+0080..U+00FF are then compared with one raw byte — a real two-byte character is missed and a lone invalid byte matches")
				}
			}
		}
	}
	if n == 0 {
		c.R.Exempt("rune narrowing in the reader", "no rune-to-byte conversion in the reader: nothing to decide")
	}
}

// ruleR06d: the line table has an entry for every line feed. Decided for the byte loop shape (a loop over all of the
// content appending index+1): the append is governed by the test 'byte == 0x0A' only.
func (c *Ctx) ruleR06d(rule string) {
	c.R.Rule(rule, "setLines: in the loop over the whole content, index+1 is appended to the line table exactly when the byte is a line feed (no other condition), so every line feed — including a trailing one — starts a line", 0)
	m := c.model()
	if !m.ok || m.SetLines == nil {
		c.R.Exempt("line table", "the function building the line table was not found: not decided")
		return
	}
	fn := m.SetLines
	name := c.name(fn)
	lf := c.linFn(fn)
	found := false
	for _, b := range fn.Blocks {
		for _, in := range b.Instrs {
			cl, ok := in.(*ssa.Call)
			if !ok {
				continue
			}
			bi, isB := cl.Call.Value.(*ssa.Builtin)
			if !isB || bi.Name() != "append" || len(cl.Call.Args) != 2 {
				continue
			}
			if _, f, isLoad := fieldLoad(cl.Call.Args[0]); !isLoad || f != m.Lines {
				continue
			}
			head := innermostLoopHeader(b)
			if head == nil {
				continue
			}
			// the loop index over the content
			var idx ssa.Value
			var byteVal ssa.Value
			for _, hb := range fn.Blocks {
				if !head.Dominates(hb) {
					continue
				}
				for _, i2 := range hb.Instrs {
					u, ok := i2.(*ssa.UnOp)
					if !ok || u.Op != token.MUL {
						continue
					}
					ia, ok := u.X.(*ssa.IndexAddr)
					if !ok {
						continue
					}
					if _, f, isLoad := fieldLoad(ia.X); isLoad && f == m.Data && (indexLoopOf(ia.Index, ia.X) != nil || isFullRangeIndex(ia.Index, ia.X)) {
						idx, byteVal = ia.Index, u
					}
				}
			}
			if idx == nil {
				continue // another shape (e.g. bytes.IndexByte): not decided
			}
			found = true
			site := name + " append @" + c.P.InstrPos(cl)
			// the value appended is index+1
			var appended ssa.Value
			if sl, ok := cl.Call.Args[1].(*ssa.Slice); ok {
				if al, ok := sl.X.(*ssa.Alloc); ok && al.Referrers() != nil {
					for _, r := range *al.Referrers() {
						if ia, ok := r.(*ssa.IndexAddr); ok && ia.Referrers() != nil {
							for _, rr := range *ia.Referrers() {
								if st, ok := rr.(*ssa.Store); ok {
									appended = st.Val
								}
							}
						}
					}
				}
			}
			if appended == nil {
				c.R.Exempt(site, "appended value not recognised: not decided")
				continue
			}
			d := lf.Norm(appended).Sub(lf.Norm(idx))
			if !d.IsConst() || d.K != 1 {
				c.R.Violation(rule, name+" line start", name, c.P.InstrPos(cl), "the value appended to the line table is not (index of the line feed) + 1: "+lf.Norm(appended).String()+" — lines start at the wrong offset, so columns and line numbers are off")
				continue
			}
			// governing conditions inside the loop: byte tests only, true exactly for 0x0A
			foreign := ""
			var conds []ssax.Cond
			for _, cd := range ssax.DominatingConds(b) {
				if cd.At == nil || !head.Dominates(cd.At) || cd.At == head {
					continue
				}
				conds = append(conds, cd)
			}
			set := map[int64]bool{}
			for v := int64(0); v < 256 && foreign == ""; v++ {
				env := benv{byteVal: bval{known: true, i: v}}
				all := true
				for _, cd := range conds {
					r := foldValue(cd.Val, env, 0)
					if !r.known || !r.isB {
						foreign = cd.Val.String()
						break
					}
					if r.b != cd.Truth {
						all = false
					}
				}
				if all {
					set[v] = true
				}
			}
			switch {
			case foreign != "":
				c.R.Violation(rule, name+" conditional line start", name, c.P.InstrPos(cl), "whether a line start is recorded depends on "+foreign+", not only on the byte being a line feed: some line feeds (e.g. a trailing one) do not start a line, so positions after them render with the wrong line and column")
			case len(set) != 1 || !set[0x0A]:
				c.R.Violation(rule, name+" line separator", name, c.P.InstrPos(cl), fmt.Sprintf("line starts are recorded after bytes %v; the line separator is the line feed 0x0A only", setStr(set)))
			default:
				c.R.Hold(rule, site, "index+1 appended exactly when the byte is 0x0A")
			}
		}
	}
	if !found {
		c.R.Exempt("line table", "the line table is not built by a byte loop over the content: not decided")
	}
}
