package rules

import (
	"fmt"
	"go/ast"
	"go/constant"
	"go/token"
	"go/types"
	"sort"
	"strings"

	"golang.org/x/tools/go/ssa"

	"pv/internal/report"
	"pv/internal/ssax"
)

func init() {
	register(&Property{ID: "C16", Run: runC16, Meta: report.Meta{ID: "C16",
		Explanation: "DECIDED: agreement between the SHAPE of the example grammar and the interpreters that index into it — a necessary condition of 'evaluates to the same value as encoding/json … never a panic' that no test covers (examples/json/json has only benchmarks). R16a value-shape inference over the constructor expressions of json.NewParser (abstract interpretation of the typed AST: terminals yield their literal type, SeqOf/SepBy/Choice/trim wrappers/recursive references compose, Select(k) needs k < arity, Array() yields a list of the value elements, Object() needs every element to be a sequence of at least three children whose first evaluates to a string, a sequence without interpreter has no value): the root evaluates, on every alternative, to a JSON value type (string, float64, int64, bool, nil, list, string-keyed map) and never to 'panics' or 'no value'. R16b SepBy alternates value and separator parsers by index parity and accepts exactly the empty chain (when allowed) and odd-length chains, checked by truth-table equivalence of the length predicate over its atomic comparisons; Sentence selects child 0 of (p, End). R16c every number of the supported JSON subset is a word of the pattern that delimits the literal parser the grammar uses for it: the language of -?(0|[1-9][0-9]*)\\.[0-9]+([eE][+-]?[0-9]+)? is included in that of terminal.Float's pattern constant, that of -?(0|[1-9][0-9]*) in terminal.Integer's (Thompson automata from regexp/syntax, product subset construction over a partition of the rune alphabet, shortest counterexample reported; computed on the pattern constants, nothing of the library is run). R16d the Array/Object interpreters store one entry per visited element: inside the loop only index tests and error returns decide whether the store runs, and the value stored is that iteration's EvaluateNode result (so a later duplicate key overwrites an earlier one, as in encoding/json). NOT DECIDED: value agreement with encoding/json (a differential property over documents), whitespace-mode choices, numeric edge cases, that the patterns match NO MORE than intended and that leftmost-first matching consumes the whole number (R16c is the inclusion only).",
		Assumptions: commonAssumptions, TrustedBase: append([]string{"go/ast + go/types of the example package"}, commonTrusted...)}})
}

func runC16(c *Ctx) {
	c.U0()
	c.ruleR16a("R16a value-shape-inference")
	c.ruleR16b("R16b sep-by-shape")
	c.ruleR16c("R16c json-number-syntax-covered")
	c.ruleR16d("R16d interpreters-store-every-element")
}

// ---- abstract grammar values

type gKind int

const (
	gLit gKind = iota
	gSeq
	gSepBy
	gChoice
	gRef
	gUnknown
)

type gNode struct {
	kind   gKind
	lit    string   // literal value type
	kids   []*gNode // seq children / sepby [value, sep] / choice alternatives
	interp string   // "", "select:k", "array", "object", "nil", "other"
	ref    string
	why    string
	pos    token.Pos
}

var terminalValueType = map[string]string{
	"String": "string", "Float": "float64", "Integer": "int64", "Bool": "bool", "Nil": "nil", "Rune": "rune",
	"Char": "rune", "Op": "string", "Regexp": "string", "TimeDuration": "time.Duration", "Word": "any",
}

type g16 struct {
	c     *Ctx
	info  *types.Info
	vars  map[types.Object]*gNode
	names map[string]types.Object
	// params of package-local helper functions being expanded: parameter object -> argument expression
	env   []map[types.Object]ast.Expr
	funcs map[*types.Func]*ast.FuncDecl
	depth int
}

// arg looks an identifier up in the helper-expansion environment.
func (g *g16) arg(id *ast.Ident) (ast.Expr, int, bool) {
	o := g.info.Uses[id]
	for i := len(g.env) - 1; i >= 0; i-- {
		if e, ok := g.env[i][o]; ok {
			return e, i, true
		}
	}
	return nil, 0, false
}

func (g *g16) funcOf(e ast.Expr) *types.Func {
	switch x := e.(type) {
	case *ast.SelectorExpr:
		if f, ok := g.info.Uses[x.Sel].(*types.Func); ok {
			return f
		}
	case *ast.Ident:
		if f, ok := g.info.Uses[x].(*types.Func); ok {
			return f
		}
	}
	return nil
}

func (g *g16) pkgOf(f *types.Func) string {
	if f == nil || f.Pkg() == nil {
		return ""
	}
	return g.c.P.Rel(f.Pkg().Path())
}

func (g *g16) interpOf(e ast.Expr) string {
	if id, ok := ast.Unparen(e).(*ast.Ident); ok {
		if a, lvl, ok := g.arg(id); ok {
			saved := g.env
			g.env = g.env[:lvl]
			defer func() { g.env = saved }()
			return g.interpOf(a)
		}
	}
	call, ok := e.(*ast.CallExpr)
	if !ok {
		return "other"
	}
	f := g.funcOf(call.Fun)
	if g.pkgOf(f) != "ast/interpreter" {
		return "other"
	}
	switch f.Name() {
	case "Select":
		if tv, ok := g.info.Types[call.Args[0]]; ok && tv.Value != nil {
			if k, ok := constant.Int64Val(tv.Value); ok {
				return fmt.Sprintf("select:%d", k)
			}
		}
		return "other"
	case "Array":
		return "array"
	case "Object":
		return "object"
	case "Nil":
		return "nil"
	}
	return "other"
}

// eval turns a constructor expression into an abstract grammar node.
func (g *g16) eval(e ast.Expr) *gNode {
	e = ast.Unparen(e)
	switch x := e.(type) {
	case *ast.UnaryExpr:
		if x.Op == token.AND {
			if id, ok := x.X.(*ast.Ident); ok {
				return &gNode{kind: gRef, ref: id.Name, pos: x.Pos()}
			}
		}
	case *ast.Ident:
		if a, lvl, ok := g.arg(x); ok {
			saved := g.env
			g.env = g.env[:lvl]
			defer func() { g.env = saved }()
			return g.eval(a)
		}
		if o := g.info.Uses[x]; o != nil {
			if n, ok := g.vars[o]; ok {
				return n
			}
			return &gNode{kind: gRef, ref: x.Name, pos: x.Pos()}
		}
	case *ast.CallExpr:
		// method chain: X.Bind(i) / X.Name(n) / X.Token(t) / X.HandleResult(h)
		if sel, ok := x.Fun.(*ast.SelectorExpr); ok {
			if f := g.funcOf(x.Fun); f != nil && f.Type().(*types.Signature).Recv() != nil {
				inner := g.eval(sel.X)
				switch f.Name() {
				case "Bind":
					cp := *inner
					cp.interp = g.interpOf(x.Args[0])
					return &cp
				case "Name", "Token":
					return inner
				case "HandleResult":
					return &gNode{kind: gUnknown, why: "custom result handler", pos: x.Pos()}
				}
				return &gNode{kind: gUnknown, why: "method " + f.Name(), pos: x.Pos()}
			}
		}
		f := g.funcOf(x.Fun)
		if f == nil {
			// conversion such as parser.Func(...)
			return &gNode{kind: gUnknown, why: "not a constructor call", pos: x.Pos()}
		}
		switch g.pkgOf(f) {
		case "text/terminal":
			if t, ok := terminalValueType[f.Name()]; ok {
				return &gNode{kind: gLit, lit: t, pos: x.Pos()}
			}
		case "text":
			switch f.Name() {
			case "LeftTrim", "RightTrim", "Trim":
				return g.eval(x.Args[0])
			}
		case "combinator":
			switch f.Name() {
			case "SeqOf", "SeqTry", "SeqFirstOrAll":
				n := &gNode{kind: gSeq, pos: x.Pos()}
				if f.Name() != "SeqOf" {
					n.why = f.Name() + " may return fewer children"
				}
				for _, a := range x.Args {
					n.kids = append(n.kids, g.eval(a))
				}
				return n
			case "SepBy", "SepBy1":
				return &gNode{kind: gSepBy, kids: []*gNode{g.eval(x.Args[0]), g.eval(x.Args[1])}, pos: x.Pos()}
			case "Choice", "Any":
				n := &gNode{kind: gChoice, pos: x.Pos()}
				for _, a := range x.Args {
					n.kids = append(n.kids, g.eval(a))
				}
				return n
			case "Memoize", "Optional", "Single", "SuppressError":
				if f.Name() == "Optional" {
					return &gNode{kind: gChoice, kids: []*gNode{g.eval(x.Args[0]), {kind: gLit, lit: "novalue(empty)"}}, pos: x.Pos()}
				}
				return g.eval(x.Args[0])
			case "Sentence":
				return g.eval(x.Args[0])
			}
		}
		// a helper of the example package itself whose body is `return <constructor expression>`: expand it
		if fd := g.funcs[f]; fd != nil && g.depth < 8 && fd.Body != nil && len(fd.Body.List) >= 1 && g.straightLine(fd) {
			if rs, ok := fd.Body.List[len(fd.Body.List)-1].(*ast.ReturnStmt); ok && len(rs.Results) == 1 {
				frame := map[types.Object]ast.Expr{}
				i := 0
				for _, fld := range fd.Type.Params.List {
					for _, nm := range fld.Names {
						if i < len(x.Args) {
							frame[g.info.Defs[nm]] = x.Args[i]
						}
						i++
					}
				}
				// arguments are evaluated in the caller's environment: wrap them lazily by pushing the frame
				g.env = append(g.env, frame)
				g.depth++
				// local definitions preceding the return
				for _, st := range fd.Body.List[:len(fd.Body.List)-1] {
					if as, ok := st.(*ast.AssignStmt); ok {
						for i, l := range as.Lhs {
							id, ok := l.(*ast.Ident)
							if !ok || i >= len(as.Rhs) {
								continue
							}
							o := g.info.Defs[id]
							if o == nil {
								o = g.info.Uses[id]
							}
							g.names[id.Name] = o
							g.vars[o] = g.eval(as.Rhs[i])
						}
					}
				}
				n := g.eval(rs.Results[0])
				g.depth--
				g.env = g.env[:len(g.env)-1]
				return n
			}
		}
		return &gNode{kind: gUnknown, why: "unrecognised constructor " + f.FullName(), pos: x.Pos()}
	}
	return &gNode{kind: gUnknown, why: fmt.Sprintf("unrecognised expression %T", e), pos: e.Pos()}
}

// valueTypes computes the set of value types of a node; problems are collected.
func (g *g16) valueTypes(n *gNode, seen map[*gNode]bool, problems *[]string) map[string]bool {
	out := map[string]bool{}
	if n == nil {
		return out
	}
	if seen[n] {
		out["J"] = true
		return out
	}
	seen[n] = true
	defer delete(seen, n)
	at := g.c.P.Pos(n.pos)
	switch n.kind {
	case gLit:
		out[n.lit] = true
	case gRef:
		if o := g.names[n.ref]; o != nil {
			if t, ok := g.vars[o]; ok {
				for k := range g.valueTypes(t, seen, problems) {
					out[k] = true
				}
				return out
			}
		}
		out["J"] = true
	case gUnknown:
		*problems = append(*problems, at+": "+n.why)
		out["?"] = true
	case gChoice:
		for _, k := range n.kids {
			for t := range g.valueTypes(k, seen, problems) {
				out[t] = true
			}
		}
	case gSeq, gSepBy:
		elems := n.kids
		if n.kind == gSepBy {
			elems = []*gNode{n.kids[0], n.kids[1], n.kids[0]} // value, sep, value, ...: even indexes are values
		}
		switch {
		case n.interp == "":
			*problems = append(*problems, at+": a sequence without an interpreter is evaluated (NonTerminalNode.Value panics: missing interpreter)")
			out["novalue"] = true
		case strings.HasPrefix(n.interp, "select:"):
			var k int
			fmt.Sscanf(n.interp, "select:%d", &k)
			if n.kind == gSepBy {
				*problems = append(*problems, at+": Select on a separated list of variable length")
				out["?"] = true
				break
			}
			if k < 0 || k >= len(elems) {
				*problems = append(*problems, fmt.Sprintf("%s: Select(%d) on a sequence of %d elements (panics: node index is out of bounds)", at, k, len(elems)))
				out["panic"] = true
				break
			}
			for t := range g.valueTypes(elems[k], seen, problems) {
				out[t] = true
			}
		case n.interp == "array":
			var ts []string
			for i := 0; i < len(elems); i += 2 {
				for t := range g.valueTypes(elems[i], seen, problems) {
					ts = append(ts, t)
				}
			}
			out["[]("+strings.Join(uniq(ts), "|")+")"] = true
		case n.interp == "object":
			var ts []string
			for i := 0; i < len(elems); i += 2 {
				kv := g.resolve(elems[i])
				if kv == nil || kv.kind != gSeq || len(kv.kids) < 3 {
					*problems = append(*problems, at+": Object() needs every element to be a sequence of at least three children (key, separator, value); it indexes Children()[0] and Children()[2]")
					out["panic"] = true
					continue
				}
				kt := g.valueTypes(kv.kids[0], seen, problems)
				if len(kt) != 1 || !kt["string"] {
					*problems = append(*problems, fmt.Sprintf("%s: Object() asserts key.(string) but the key parser evaluates to %v (panics)", at, keys(kt)))
					out["panic"] = true
				}
				for t := range g.valueTypes(kv.kids[2], seen, problems) {
					ts = append(ts, t)
				}
			}
			out["map[string]("+strings.Join(uniq(ts), "|")+")"] = true
		case n.interp == "nil":
			out["nil"] = true
		default:
			*problems = append(*problems, at+": unrecognised interpreter")
			out["?"] = true
		}
	}
	return out
}

func (g *g16) resolve(n *gNode) *gNode {
	for i := 0; i < 10 && n != nil && n.kind == gRef; i++ {
		o := g.names[n.ref]
		if o == nil {
			return nil
		}
		n = g.vars[o]
	}
	return n
}

func uniq(s []string) []string {
	m := map[string]bool{}
	for _, x := range s {
		m[x] = true
	}
	return keys(m)
}

func keys(m map[string]bool) []string {
	var out []string
	for k := range m {
		out = append(out, k)
	}
	sort.Strings(out)
	return out
}

func (c *Ctx) ruleR16a(rule string) {
	c.R.Rule(rule, "the example grammar's root evaluates on every alternative to a JSON value type; no Select out of range, no Object() on a non key-value shape, no sequence without interpreter reaches evaluation", 1)
	pk := c.P.Lib["examples/json/json"]
	if pk == nil {
		c.R.Fail("coverage-lost", rule, "examples/json/json", "-", "-", "package not found")
		return
	}
	var fd *ast.FuncDecl
	for _, f := range pk.Syntax {
		for _, d := range f.Decls {
			if x, ok := d.(*ast.FuncDecl); ok && x.Name.Name == "NewParser" && x.Recv == nil {
				fd = x
			}
		}
	}
	if fd == nil {
		c.R.Fail("coverage-lost", rule, "json.NewParser", "-", "-", "function not found")
		return
	}
	g := &g16{c: c, info: pk.TypesInfo, vars: map[types.Object]*gNode{}, names: map[string]types.Object{}, funcs: map[*types.Func]*ast.FuncDecl{}}
	for _, f := range pk.Syntax {
		for _, d := range f.Decls {
			if x, ok := d.(*ast.FuncDecl); ok && x.Recv == nil {
				if fo, ok := pk.TypesInfo.Defs[x.Name].(*types.Func); ok {
					g.funcs[fo] = x
				}
			}
		}
	}
	var root *gNode
	for _, st := range fd.Body.List {
		switch s := st.(type) {
		case *ast.DeclStmt:
			if gd, ok := s.Decl.(*ast.GenDecl); ok {
				for _, sp := range gd.Specs {
					if vs, ok := sp.(*ast.ValueSpec); ok {
						for i, n := range vs.Names {
							o := pk.TypesInfo.Defs[n]
							g.names[n.Name] = o
							if i < len(vs.Values) {
								g.vars[o] = g.eval(vs.Values[i])
							}
						}
					}
				}
			}
		case *ast.AssignStmt:
			for i, l := range s.Lhs {
				id, ok := l.(*ast.Ident)
				if !ok || i >= len(s.Rhs) {
					continue
				}
				o := pk.TypesInfo.Defs[id]
				if o == nil {
					o = pk.TypesInfo.Uses[id]
				}
				g.names[id.Name] = o
				g.vars[o] = g.eval(s.Rhs[i])
			}
		case *ast.ReturnStmt:
			if len(s.Results) == 1 {
				root = g.eval(s.Results[0])
			}
		}
	}
	if root == nil {
		c.R.Undecided(rule, "json.NewParser root", "examples/json/json.NewParser", c.P.Pos(fd.Pos()), "no single returned parser expression")
		return
	}
	var problems []string
	vt := g.valueTypes(g.resolve(root), map[*gNode]bool{}, &problems)
	allowed := func(t string) bool {
		switch t {
		case "string", "float64", "int64", "bool", "nil", "J":
			return true
		}
		return strings.HasPrefix(t, "[](") || strings.HasPrefix(t, "map[string](")
	}
	var bad []string
	for t := range vt {
		if !allowed(t) {
			bad = append(bad, t)
		}
	}
	sort.Strings(bad)
	name := "examples/json/json.NewParser"
	if len(problems) == 0 && len(bad) == 0 {
		c.R.Hold(rule, name, "root evaluates to "+strings.Join(keys(vt), " | "))
	} else {
		msg := "the grammar's shape and its interpreters disagree"
		if len(bad) > 0 {
			msg += ": the root can evaluate to " + strings.Join(bad, ", ") + ", which is not a JSON value type"
		}
		if len(problems) > 0 {
			msg += ": " + strings.Join(problems, "; ")
		}
		c.R.Violation(rule, name+" value shape", name, c.P.Pos(fd.Pos()), msg+" — evaluation of some document panics or yields a value encoding/json would not")
	}
	c.R.Extra["json_value_types"] = keys(vt)
}

// ---- R16b

// boolTable evaluates a boolean SSA value as a function of its atomic comparisons (truth table over the atoms).
func boolAtoms(v ssa.Value, atoms *[]ssa.Value, seen map[ssa.Value]bool) {
	if seen[v] {
		return
	}
	seen[v] = true
	switch x := v.(type) {
	case *ssa.Phi:
		for _, e := range x.Edges {
			boolAtoms(e, atoms, seen)
		}
		// the conditions selecting the edges
		for _, p := range x.Block().Preds {
			if ifi, ok := p.Instrs[len(p.Instrs)-1].(*ssa.If); ok {
				boolAtoms(ifi.Cond, atoms, seen)
			}
		}
	case *ssa.UnOp:
		if x.Op == token.NOT {
			boolAtoms(x.X, atoms, seen)
			return
		}
		*atoms = append(*atoms, v)
	case *ssa.Const:
	default:
		*atoms = append(*atoms, v)
	}
}

func (c *Ctx) ruleR16b(rule string) {
	c.R.Rule(rule, "SepBy: lookup(i) is the value parser for even i and the separator for odd i; the length predicate accepts exactly len == 0 (when empty is allowed) and odd lengths", 2)
	// the constructor shared by the exported SepBy and SepBy1
	var fn *ssa.Function
	if sb := c.P.Func("combinator.SepBy"); sb != nil {
		for _, call := range ssax.Calls(sb) {
			if sc := call.Common().StaticCallee(); sc != nil && c.P.InLib(sc) && sc.Signature.Results().Len() == 1 {
				fn = sc
			}
		}
		for _, b := range sb.Blocks {
			for _, in := range b.Instrs {
				if _, ok := in.(*ssa.MakeClosure); ok {
					fn = sb // SepBy builds the sequence itself
				}
			}
		}
	}
	if fn == nil {
		c.R.Fail("coverage-lost", rule, "combinator.newSepBy", "-", "-", "function not found")
		return
	}
	var lookup, lenCheck *ssa.Function
	var lookupFields func(int) ssa.Value // for a method value: what the constructor stored into the object's fields
	lookupArgs := func(i int64) []bval { return []bval{{known: true, i: i}} }
	for _, b := range fn.Blocks {
		for _, in := range b.Instrs {
			if mc, ok := in.(*ssa.MakeClosure); ok {
				f := mc.Fn.(*ssa.Function)
				if f.Signature.Results().Len() == 1 {
					if bt, ok := f.Signature.Results().At(0).Type().Underlying().(*types.Basic); ok && bt.Kind() == types.Bool {
						lenCheck = f
					} else {
						lookup = f
						if m, fields := c.boundMethod(mc); m != nil {
							lookup, lookupFields = m, fields
							lookupArgs = func(i int64) []bval { return []bval{{}, {known: true, i: i}} }
						}
					}
				}
			}
		}
	}
	if lookup == nil || lenCheck == nil {
		c.R.Undecided(rule, "newSepBy closures", "combinator.newSepBy", c.P.Pos(fn.Pos()), "lookup / length-check closures not recognised")
		return
	}
	// lookup: returns value parser when i%2 == 0 else separator
	okLookup := true
	valueP, sepP := fn.Params[0], fn.Params[1]
	fvOf := func(v ssa.Value) *ssa.Parameter {
		if lookupFields != nil {
			// a field of the method's receiver
			idx := -1
			switch x := v.(type) {
			case *ssa.Field:
				if x.X == ssa.Value(lookup.Params[0]) {
					idx = x.Field
				}
			case *ssa.UnOp:
				if fa, ok := x.X.(*ssa.FieldAddr); ok && x.Op == token.MUL && (fa.X == ssa.Value(lookup.Params[0]) || isRecvSpill(lookup, fa.X)) {
					idx = fa.Field
				}
			}
			if idx >= 0 {
				p, _ := lookupFields(idx).(*ssa.Parameter)
				return p
			}
			return nil
		}
		u, ok := v.(*ssa.UnOp)
		if !ok || u.Op != token.MUL {
			return nil
		}
		fv, ok := u.X.(*ssa.FreeVar)
		if !ok {
			return nil
		}
		for _, b := range fn.Blocks {
			for _, in := range b.Instrs {
				if mc, ok := in.(*ssa.MakeClosure); ok && mc.Fn == lookup {
					for i, f := range lookup.FreeVars {
						if f == fv {
							if al, ok := mc.Bindings[i].(*ssa.Alloc); ok && al.Referrers() != nil {
								for _, r := range *al.Referrers() {
									if st, ok := r.(*ssa.Store); ok && st.Addr == al {
										if p, ok := st.Val.(*ssa.Parameter); ok {
											return p
										}
									}
								}
							}
						}
					}
				}
			}
		}
		return nil
	}
	// lookup: folded for i = 0..7 — the value parser at even indexes, the separator at odd ones
	for i := int64(0); i < 8 && okLookup; i++ {
		ret, _, took := foldToReturn(lookup, lookupArgs(i), nil, 0)
		if ret == nil || len(ret.Results) != 1 {
			c.R.Undecided(rule, c.name(lookup)+" shape", c.name(lookup), c.P.Pos(lookup.Pos()), "the SepBy lookup is not a pure function of the index")
			return
		}
		rv := ssax.Strip(ret.Results[0])
		if ph, ok := rv.(*ssa.Phi); ok {
			if t, ok := took[ph]; ok {
				rv = ssax.Strip(t)
			}
		}
		p := fvOf(rv)
		if !(i%2 == 0 && p == valueP || i%2 == 1 && p == sepP) {
			okLookup = false
		}
	}
	if okLookup {
		c.R.Hold(rule, c.name(lookup), "even index -> value parser, odd index -> separator (folded for i = 0..7)")
	} else {
		c.R.Violation(rule, c.name(lookup)+" parity", c.name(lookup), c.P.Pos(lookup.Pos()), "the SepBy lookup does not alternate value and separator parsers by index parity: the Array/Object interpreters pick every second child and would read separators as values")
	}
	// lenCheck: folded over len = 0..9 and both values of the allow-empty flag
	bad := ""
	for n := int64(0); n < 10 && bad == ""; n++ {
		for _, allow := range []bool{true, false} {
			capt := benv{}
			for _, fv := range lenCheck.FreeVars {
				if pt, ok := fv.Type().Underlying().(*types.Pointer); ok {
					if bt, ok := pt.Elem().Underlying().(*types.Basic); ok && bt.Kind() == types.Bool {
						capt[fv] = bval{known: true, isB: true, b: allow}
					}
				}
			}
			fl := allow
			foldBoolField = &fl
			got := foldFuncEnv(lenCheck, []bval{{known: true, i: n}}, capt, 0)
			foldBoolField = nil
			if !got.known || !got.isB {
				c.R.Undecided(rule, c.name(lenCheck)+" atoms", c.name(lenCheck), c.P.Pos(lenCheck.Pos()), "the length predicate is not a pure function of the length and the allow-empty flag")
				return
			}
			want := n == 0 && allow || n%2 == 1
			if got.b != want {
				bad = fmt.Sprintf("for len=%d, allowEmpty=%v the predicate gives %v, the specification %v", n, allow, got.b, want)
			}
		}
	}
	if bad == "" {
		c.R.Hold(rule, c.name(lenCheck), "accepts exactly (len == 0 and allowEmpty) or odd len (folded for len = 0..9)")
	} else {
		c.R.Violation(rule, c.name(lenCheck)+" length predicate", c.name(lenCheck), c.P.Pos(lenCheck.Pos()), "SepBy's length predicate is not '(len == 0 && allowEmpty) || len odd': "+bad+" — chains ending in a separator (e.g. [1,]) are accepted and evaluate to a value")
	}
}

func evalBool(v ssa.Value, atom func(ssa.Value) (bool, bool), depth int) (bool, bool) {
	if depth > 20 {
		return false, false
	}
	if k, ok := ssax.ConstBool(v); ok {
		return k, true
	}
	switch x := v.(type) {
	case *ssa.UnOp:
		if x.Op == token.NOT {
			r, ok := evalBool(x.X, atom, depth+1)
			return !r, ok
		}
	case *ssa.Phi:
		// short-circuit value: edge i is taken when the path conditions to pred i hold
		for i, e := range x.Edges {
			pred := x.Block().Preds[i]
			taken := true
			known := true
			for _, cd := range ssax.DominatingConds(pred) {
				if !x.Block().Parent().Blocks[0].Dominates(cd.At) {
					continue
				}
				r, ok := evalBool(cd.Val, atom, depth+1)
				if !ok {
					known = false
					break
				}
				if r != cd.Truth {
					taken = false
				}
			}
			// the edge from pred to the phi block itself (pred ends in an If)
			if known && taken {
				if ifi, ok := pred.Instrs[len(pred.Instrs)-1].(*ssa.If); ok {
					r, ok2 := evalBool(ifi.Cond, atom, depth+1)
					if !ok2 {
						known = false
					} else if (pred.Succs[0] == x.Block()) != r && pred.Succs[0] != pred.Succs[1] {
						taken = false
					}
				}
			}
			if !known {
				return false, false
			}
			if taken {
				return evalBool(e, atom, depth+1)
			}
		}
		return false, false
	}
	return atom(v)
}

// boundMethod: the closure is a method value; returns the method behind the bound wrapper and what the creating
// function stored into each field of the receiver object.
func (c *Ctx) boundMethod(mc *ssa.MakeClosure) (*ssa.Function, func(int) ssa.Value) {
	g := mc.Fn.(*ssa.Function)
	if g.Synthetic == "" || len(mc.Bindings) != 1 {
		return nil, nil
	}
	var m *ssa.Function
	for _, call := range ssax.Calls(g) {
		if sc := call.Common().StaticCallee(); sc != nil && c.P.InLib(sc) && sc.Signature.Recv() != nil {
			m = sc
		}
	}
	if m == nil {
		return nil, nil
	}
	var obj ssa.Value = mc.Bindings[0]
	if u, ok := obj.(*ssa.UnOp); ok && u.Op == token.MUL {
		obj = u.X
	}
	al, ok := obj.(*ssa.Alloc)
	if !ok {
		return m, func(int) ssa.Value { return nil }
	}
	return m, func(idx int) ssa.Value {
		if al.Referrers() == nil {
			return nil
		}
		var v ssa.Value
		for _, r := range *al.Referrers() {
			if fa, ok := r.(*ssa.FieldAddr); ok && fa.Field == idx && fa.Referrers() != nil {
				for _, rr := range *fa.Referrers() {
					if st, ok := rr.(*ssa.Store); ok && st.Addr == fa {
						v = st.Val
					}
				}
			}
		}
		return v
	}
}

// straightLine: the helper's body is a list of simple assignments followed by one return.
func (g *g16) straightLine(fd *ast.FuncDecl) bool {
	for i, st := range fd.Body.List {
		last := i == len(fd.Body.List)-1
		switch x := st.(type) {
		case *ast.AssignStmt:
			if last {
				return false
			}
			for _, l := range x.Lhs {
				if _, ok := l.(*ast.Ident); !ok {
					return false
				}
			}
		case *ast.ReturnStmt:
			if !last {
				return false
			}
		default:
			return false
		}
	}
	return true
}
