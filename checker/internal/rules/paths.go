package rules

import (
	"fmt"
	"go/token"
	"go/types"
	"strings"

	"golang.org/x/tools/go/ssa"

	"pv/internal/ssax"
)

// A small path-sensitive nilness analysis: it walks the acyclic paths of a function's CFG, resolves phis
// along the path, records the nil/non-nil facts established by branch conditions and prunes branches that
// contradict them. It is an abstract interpretation over {nil, nonnil, unknown}; no solver is involved.

type nilState int8

const (
	nsUnknown nilState = iota
	nsNil
	nsNonNil
)

func (n nilState) String() string { return [...]string{"unknown", "nil", "non-nil"}[n] }

// taken records one branch decision of the path (never forgotten, unlike the per-iteration facts).
type taken struct {
	cond  ssa.Value // resolved condition
	truth bool
	at    *ssa.BasicBlock
}

// note is one entry of a path's ordered log: a selected instruction, or a branch decision.
type note struct {
	in ssa.Instruction
	ev *taken
}

type pathState struct {
	notes      []note
	fieldFacts map[string]nilState // facts about x.f that hold for every load of that field until it is stored to
	depth      int
	events     []taken
	phi        map[*ssa.Phi]ssa.Value
	facts      map[ssa.Value]nilState
	bools      map[ssa.Value]bool
	seen       map[*ssa.BasicBlock]int
	trace      []*ssa.BasicBlock
}

func (p *pathState) clone() *pathState {
	q := &pathState{phi: map[*ssa.Phi]ssa.Value{}, facts: map[ssa.Value]nilState{}, bools: map[ssa.Value]bool{}, seen: map[*ssa.BasicBlock]int{}}
	for k, v := range p.phi {
		q.phi[k] = v
	}
	for k, v := range p.facts {
		q.facts[k] = v
	}
	for k, v := range p.bools {
		q.bools[k] = v
	}
	for k, v := range p.seen {
		q.seen[k] = v
	}
	q.trace = append([]*ssa.BasicBlock{}, p.trace...)
	q.events = append([]taken{}, p.events...)
	q.notes = append([]note{}, p.notes...)
	q.fieldFacts = map[string]nilState{}
	for k, v := range p.fieldFacts {
		q.fieldFacts[k] = v
	}
	return q
}

// snapVal stands for the value an SSA name had in an earlier loop iteration of the path.
type snapVal struct {
	ssa.Value
	of ssa.Value
	st nilState
}

func (s *snapVal) Name() string   { return "prev(" + s.of.Name() + ")" }
func (s *snapVal) String() string { return "previous-iteration value of " + s.of.Name() }

// resolve follows value-preserving wrappers and the phis fixed by the current path.
func (p *pathState) resolve(v ssa.Value) ssa.Value {
	for i := 0; i < 50; i++ {
		switch x := v.(type) {
		case *ssa.ChangeInterface:
			v = x.X
			continue
		case *ssa.ChangeType:
			v = x.X
			continue
		case *ssa.Phi:
			if r, ok := p.phi[x]; ok {
				v = r
				continue
			}
		}
		break
	}
	return v
}

// nonNilCall: calls whose (first) result is never nil.
func nonNilCall(c *ssa.Call) bool {
	sc := c.Call.StaticCallee()
	if sc == nil {
		return false
	}
	n := sc.Name()
	if n == "NewError" || n == "NewErrorf" || n == "NotFoundError" || n == "NewWhitespaceError" {
		return true
	}
	if sc.Pkg != nil && (sc.Pkg.Pkg.Path() == "fmt" && n == "Errorf" || sc.Pkg.Pkg.Path() == "errors" && n == "New") {
		return true
	}
	// constructors returning the address of a fresh composite
	if strings.HasPrefix(n, "New") && len(sc.Blocks) > 0 {
		for _, r := range ssax.Returns(sc) {
			if len(r.Results) == 0 {
				return false
			}
			if _, ok := ssax.Strip(r.Results[0]).(*ssa.Alloc); !ok {
				return false
			}
		}
		return true
	}
	return false
}

func (p *pathState) eval(v ssa.Value) nilState {
	if p.depth > 12 {
		return nsUnknown
	}
	p.depth++
	defer func() { p.depth-- }()
	v = p.resolve(v)
	if s, ok := p.facts[v]; ok {
		return s
	}
	if k := fieldKeyOf(v); k != "" {
		if s, ok := p.fieldFacts[k]; ok {
			return s
		}
	}
	switch x := v.(type) {
	case *snapVal:
		return x.st
	case *ssa.Const:
		if x.Value == nil {
			switch x.Type().Underlying().(type) {
			case *types.Interface, *types.Pointer, *types.Slice, *types.Map, *types.Signature, *types.Chan:
				return nsNil
			}
		}
		return nsNonNil
	case *ssa.MakeInterface, *ssa.Alloc, *ssa.MakeClosure, *ssa.MakeMap, *ssa.MakeSlice, *ssa.Function:
		return nsNonNil
	case *ssa.Call:
		if nonNilCall(x) {
			return nsNonNil
		}
		// FileSet.ErrorWithPosition(err) is nil exactly when err is
		if sc := x.Call.StaticCallee(); sc != nil && sc.Name() == "ErrorWithPosition" && len(x.Call.Args) > 0 {
			return p.eval(x.Call.Args[len(x.Call.Args)-1])
		}
		// a library helper: what its returns are, given what is known about the arguments
		if sc := x.Call.StaticCallee(); sc != nil && len(sc.Blocks) > 0 && sc.Signature.Results().Len() == 1 && helperDepth < 3 {
			var argStates []nilState
			for _, a := range x.Call.Args {
				argStates = append(argStates, p.eval(a))
			}
			return helperNilness(sc, argStates)
		}
	case *ssa.Phi:
		// unresolved phi (value defined off the path): all edges
		st := nsUnknown
		for i, e := range x.Edges {
			s := p.eval(e)
			if i == 0 {
				st = s
			} else if s != st {
				return nsUnknown
			}
		}
		return st
	}
	return nsUnknown
}

// nilTest: cond is `x == nil` or `x != nil`; returns x and whether cond true means x is nil.
func nilTest(cond ssa.Value) (ssa.Value, bool, bool) {
	b, ok := cond.(*ssa.BinOp)
	if !ok || (b.Op != token.EQL && b.Op != token.NEQ) {
		return nil, false, false
	}
	if ssax.IsNilConst(b.Y) {
		return b.X, b.Op == token.EQL, true
	}
	if ssax.IsNilConst(b.X) {
		return b.Y, b.Op == token.EQL, true
	}
	return nil, false, false
}

// walkPaths enumerates the paths of fn (each block at most twice per path, at most maxPaths paths) and calls
// visit at every instruction selected by want. It returns false if the path budget was exhausted.
func walkPaths(fn *ssa.Function, want func(ssa.Instruction) bool, visit func(p *pathState, in ssa.Instruction)) bool {
	return walkPathsInit(fn, nil, want, visit)
}

// walkPathsInit is walkPaths with facts known at entry (nil-states of parameters).
func walkPathsInit(fn *ssa.Function, init map[ssa.Value]nilState, want func(ssa.Instruction) bool, visit func(p *pathState, in ssa.Instruction)) bool {
	const maxPaths = 20000
	n := 0
	var dfs func(b *ssa.BasicBlock, from *ssa.BasicBlock, p *pathState) bool
	dfs = func(b *ssa.BasicBlock, from *ssa.BasicBlock, p *pathState) bool {
		if p.seen[b] >= 2 {
			return true
		}
		p.seen[b]++
		p.trace = append(p.trace, b)
		if p.seen[b] > 1 {
			// the block's values are redefined: what the path remembers about them belongs to the earlier iteration
			def := map[ssa.Value]bool{}
			for _, in := range b.Instrs {
				if v, ok := in.(ssa.Value); ok {
					if _, isPhi := in.(*ssa.Phi); !isPhi {
						def[v] = true
					}
				}
			}
			for k, r := range p.phi {
				if def[r] {
					p.phi[k] = &snapVal{of: r, st: p.eval(r)}
				}
			}
			for v := range def {
				delete(p.facts, v)
				delete(p.bools, v)
			}
		}
		// phis first, simultaneously
		if from != nil {
			idx := -1
			for i, pr := range b.Preds {
				if pr == from {
					idx = i
				}
			}
			upd := map[*ssa.Phi]ssa.Value{}
			for _, in := range b.Instrs {
				ph, ok := in.(*ssa.Phi)
				if !ok {
					break
				}
				if idx >= 0 {
					upd[ph] = p.resolve(ph.Edges[idx])
				}
			}
			for k, v := range upd {
				p.phi[k] = v
				delete(p.facts, k)
			}
		}
		for _, in := range b.Instrs {
			if st, ok := in.(*ssa.Store); ok {
				if fa, ok := st.Addr.(*ssa.FieldAddr); ok {
					delete(p.fieldFacts, fmt.Sprintf("%p.%d", fa.X, fa.Field))
				}
			}
			if want(in) {
				p.notes = append(p.notes, note{in: in})
				visit(p, in)
			}
		}
		if len(b.Instrs) == 0 {
			return true
		}
		switch t := b.Instrs[len(b.Instrs)-1].(type) {
		case *ssa.If:
			tb, fb := true, true
			// a boolean phi of `a && b` resolves, along this path, to the operand that decided it
			cond := p.resolve(t.Cond)
			neg := false
			for {
				u, isNot := cond.(*ssa.UnOp)
				if !isNot || u.Op != token.NOT {
					break
				}
				cond, neg = p.resolve(u.X), !neg
			}
			x, nilIfTrue, isNT := nilTest(cond)
			if neg {
				nilIfTrue = !nilIfTrue
			}
			var rx ssa.Value
			if isNT {
				rx = p.resolve(x)
				switch p.eval(rx) {
				case nsNil:
					tb, fb = nilIfTrue, !nilIfTrue
				case nsNonNil:
					tb, fb = !nilIfTrue, nilIfTrue
				}
			} else if kv, ok := p.bools[cond]; ok {
				tb, fb = kv != neg, kv == neg
			} else if cb, ok := ssax.ConstBool(cond); ok {
				tb, fb = cb != neg, cb == neg
			}
			for i, take := range []bool{tb, fb} {
				if !take {
					continue
				}
				q := p.clone()
				{
					ec, et := cond, i == 0
					for {
						u, isNot := ec.(*ssa.UnOp)
						if !isNot || u.Op != token.NOT {
							break
						}
						ec, et = u.X, !et
					}
					q.events = append(q.events, taken{ec, et, b})
					q.notes = append(q.notes, note{ev: &taken{ec, et, b}})
				}
				if isNT {
					isNil := nilIfTrue == (i == 0)
					st := nsNonNil
					if isNil {
						st = nsNil
					}
					q.facts[rx] = st
					// the value tested is the result of a library helper: what this outcome says about its arguments
					if hc, ok := rx.(*ssa.Call); ok && helperDepth < 2 {
						if h := hc.Call.StaticCallee(); h != nil && !hc.Call.IsInvoke() && len(h.Blocks) > 0 && h.Signature.Results().Len() == 1 {
							for pi, ps := range helperArgFacts(h, st) {
								if pi < len(hc.Call.Args) {
									a := q.resolve(hc.Call.Args[pi])
									if _, known := q.facts[a]; !known {
										q.facts[a] = ps
									}
								}
							}
						}
					}
					if k := fieldKeyOf(rx); k != "" {
						if q.fieldFacts == nil {
							q.fieldFacts = map[string]nilState{}
						}
						q.fieldFacts[k] = st
					}
				} else {
					q.bools[cond] = (i == 0) != neg
				}
				n++
				if n > maxPaths {
					return false
				}
				if !dfs(b.Succs[i], b, q) {
					return false
				}
			}
		case *ssa.Jump:
			return dfs(b.Succs[0], b, p)
		}
		return true
	}
	if len(fn.Blocks) == 0 {
		return true
	}
	st := &pathState{phi: map[*ssa.Phi]ssa.Value{}, facts: map[ssa.Value]nilState{}, bools: map[ssa.Value]bool{}, seen: map[*ssa.BasicBlock]int{}}
	for k, v := range init {
		st.facts[k] = v
	}
	return dfs(fn.Blocks[0], nil, st)
}

var helperDepth = 0

// helperNilness: the nil-state common to all returns of fn when its parameters have the given states.
func helperNilness(fn *ssa.Function, args []nilState) nilState {
	helperDepth++
	defer func() { helperDepth-- }()
	init := map[ssa.Value]nilState{}
	for i, p := range fn.Params {
		if i < len(args) && args[i] != nsUnknown {
			init[p] = args[i]
		}
	}
	res := nsUnknown
	first := true
	ok := walkPathsInit(fn, init, isReturn, func(p *pathState, in ssa.Instruction) {
		r := in.(*ssa.Return)
		if len(r.Results) != 1 {
			res = nsUnknown
			first = false
			return
		}
		s := p.eval(r.Results[0])
		if first {
			res, first = s, false
		} else if s != res {
			res = nsUnknown
		}
	})
	if !ok {
		return nsUnknown
	}
	return res
}

// fieldKeyOf: v is a load of base.f for a parameter / fixed base: a key shared by all loads of that field.
func fieldKeyOf(v ssa.Value) string {
	u, ok := v.(*ssa.UnOp)
	if !ok || u.Op != token.MUL {
		return ""
	}
	fa, ok := u.X.(*ssa.FieldAddr)
	if !ok {
		return ""
	}
	switch fa.X.(type) {
	case *ssa.Parameter, *ssa.FreeVar, *ssa.Alloc:
		return fmt.Sprintf("%p.%d", fa.X, fa.Field)
	}
	return ""
}

var helperArgFactsCache = map[*ssa.Function]map[nilState]map[int]nilState{}

// helperArgFacts: what must hold of the helper's parameters (by index) on every path on which it returns a value in
// the given nil-state (paths whose result is unknown count for both).
func helperArgFacts(h *ssa.Function, want nilState) map[int]nilState {
	if c, ok := helperArgFactsCache[h]; ok {
		if r, ok := c[want]; ok {
			return r
		}
	} else {
		helperArgFactsCache[h] = map[nilState]map[int]nilState{}
	}
	helperDepth++
	defer func() { helperDepth-- }()
	var common map[int]nilState
	first := true
	ok := walkPaths(h, isReturn, func(p *pathState, in ssa.Instruction) {
		r := in.(*ssa.Return)
		if len(r.Results) != 1 {
			return
		}
		if s := p.eval(r.Results[0]); s != want && s != nsUnknown {
			return
		}
		here := map[int]nilState{}
		for i, prm := range h.Params {
			if s, ok := p.facts[prm]; ok && s != nsUnknown {
				here[i] = s
			}
		}
		if first {
			common, first = here, false
			return
		}
		for i, s := range common {
			if here[i] != s {
				delete(common, i)
			}
		}
	})
	if !ok || common == nil {
		common = map[int]nilState{}
	}
	helperArgFactsCache[h][want] = common
	return common
}
