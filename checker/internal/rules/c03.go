package rules

import (
	"fmt"
	"go/token"
	"go/types"
	"strings"

	"golang.org/x/tools/go/ssa"

	"pv/internal/own"
	"pv/internal/report"
	"pv/internal/ssax"
)

func init() {
	register(&Property{ID: "C03", Run: runC03, Meta: report.Meta{ID: "C03",
		Explanation: "DECIDED (for all grammars, memoization subsets and inputs at once): R03a in every memoizing parser the wrapped parser runs only on the not-found edge of the cache lookup and every path from it to a return passes through Save with the lookup's index and position; R03b what is stored, what a hit returns and what a miss returns are the wrapped call's own three results (faithful replay); R03c the cache key is a captured variable defined once per Memoize call from an atomic increment of a counter with no other writer, and Save/Get index the two-level map with the same parameters; R03d in parser scope the only non-empty IntSet constructions are on the curtailment return of a memoizing parser, so without left recursion every curtailing set and every stored context is empty and Get cannot reject; R03f the stored context is pruned to exactly the wrapped call's curtailing set on every path (an unpruned context makes entries non-reusable and the wrapped parser run twice at one position); R03e parse-time code is deterministic: no goroutine/select/channel, no call into time/rand/os/runtime, every range over a map has an order-insensitive body; cache entries are never written after Save; R03h apart from ResultCache.Save a memoizing parser writes no memory it did not allocate (no SetError / RegisterCall of its own), so the context it leaves behind is the plain grammar's. Together: at most one run per (parser, position) for left-recursion-free grammars, and identical replay. NOT DECIDED: equality of the result lists of the memoized and the plain grammar as a relation between two executions.",
		Assumptions: commonAssumptions, TrustedBase: commonTrusted}})
}

func runC03(c *Ctx) {
	c.U0()
	c.ruleR03a("R03a lookup-run-save")
	c.ruleCacheIdentity("R03b faithful-replay")
	c.ruleR03c("R03c key-discipline")
	c.ruleR03d("R03d empty-context-without-left-recursion")
	c.ruleR01d("R03f stored-context-pruned", true)
	c.ruleR03e("R03e determinism")
	c.ruleR07a("R03g cache-entries-immutable", 4, func(e *own.Effect) bool {
		return e.Owner != nil && ssax.NamedIs(e.Owner, "parsley", "Result")
	})
	c.ruleR03h("R03h memoize-writes-only-the-cache")
}

// ruleR03h: the only memory a memoizing parser writes (itself, not through the parser it wraps) is the result cache.
// Anything else it wrote into the context — the furthest error, call counters, user data — would make the
// memoized grammar observably different from the plain one.
func (c *Ctx) ruleR03h(rule string) {
	c.R.Rule(rule, "apart from ResultCache.Save, a memoizing parser (and the helpers it calls, the wrapped parser excluded) writes no memory it did not allocate: no Context.SetError / RegisterCall / user data write of its own", 1)
	a := c.Own()
	for _, m := range c.memos() {
		if !c.S.Parser[m.Fn] {
			continue
		}
		fn := c.name(m.Fn)
		bad := 0
		for _, e := range a.Info[m.Fn].SortedEffects() {
			if e.Root.K == own.RFresh || e.Root.K == own.RFreeVar || e.Root.K == own.RGlobal {
				continue // captured/global state is C14's business (R14a/b); fresh memory is the parser's own
			}
			if e.In != nil && isResultCacheMethod(e.In, "Save") {
				continue
			}
			viaSave := false
			for _, ch := range e.Chain {
				if strings.Contains(ch, "ResultCache).Save") {
					viaSave = true
				}
			}
			if viaSave {
				continue
			}
			bad++
			if bad <= 3 {
				c.R.Violation(rule, fn+" writes "+e.Loc(), fn, c.P.InstrPos(e.Instr), "the memoizing parser itself writes "+a.Describe(e)+": with this parser wrapped in Memoize the context (e.g. the furthest recorded error or the call count) differs from the un-memoized grammar")
			}
		}
		if bad == 0 {
			c.R.Hold(rule, fn, "writes nothing but the result cache")
		}
	}
}

func (c *Ctx) ruleR03a(rule string) {
	c.R.Rule(rule, "wrapped call dominated by the not-found edge of ResultCache.Get; Save(idx,pos,result) lies on every path from the wrapped call to a return; inside ResultCache.Save the map store of the result parameter (direct or through a helper) dominates every return", 3)
	n := 0
	for _, m := range c.memos() {
		if !c.S.Parser[m.Fn] {
			continue
		}
		n++
		fn := c.name(m.Fn)
		if m.Get == nil || m.Save == nil || m.Wrapped == nil {
			c.R.Undecided(rule, fn+" shape", fn, c.P.Pos(m.Fn.Pos()), "memoizing parser not in the lookup/run/save shape")
			continue
		}
		found := ssax.Extracts(m.Get, 1)
		miss := false
		for _, cd := range ssax.DominatingConds(m.Wrapped.Block()) {
			for _, f := range found {
				if cd.Val == f && !cd.Truth {
					miss = true
				}
			}
		}
		if miss {
			c.R.Hold(rule, fn+" wrapped call @"+c.P.InstrPos(m.Wrapped), "runs only when the cache lookup reported not-found")
		} else {
			c.R.Violation(rule, fn+" wrapped call not on miss edge", fn, c.P.InstrPos(m.Wrapped), "the wrapped parser may run although the cache lookup found a reusable result (the call is not dominated by the not-found edge): more than one evaluation per position")
		}
		// Save on every path W -> return
		okAll := true
		for _, r := range ssax.Returns(m.Fn) {
			reach := r.Block() == m.Wrapped.Block() || ssax.Reaches(m.Wrapped.Block(), r.Block(), false)
			if !reach {
				continue
			}
			sb := m.Save.Block()
			good := ssax.Before(m.Wrapped, m.Save) && (sb == r.Block() && ssax.Before(m.Save, r) || sb != r.Block() && sb.Dominates(r.Block()))
			if !good {
				okAll = false
				c.R.Violation(rule, fn+" return without Save", fn, c.P.InstrPos(r), "a path from the wrapped call to this return does not pass through ResultCache.Save: the result is not cached on that path and the wrapped parser runs again at the same position")
			}
		}
		// Save must not be conditional on anything computed after the wrapped call
		for _, cd := range ssax.DominatingConds(m.Save.Block()) {
			if ci, ok := cd.Val.(ssa.Instruction); ok && ci.Block() != nil && m.Wrapped.Block().Dominates(ci.Block()) && ssax.Before(m.Wrapped, ci) {
				okAll = false
				c.R.Violation(rule, fn+" conditional Save", fn, c.P.InstrPos(m.Save), "ResultCache.Save is guarded by a condition evaluated after the wrapped call: some results are not cached")
			}
		}
		if okAll {
			c.R.Hold(rule, fn+" Save @"+c.P.InstrPos(m.Save), "dominates every return reachable from the wrapped call")
		}
	}
	if n == 0 {
		c.R.Fail("coverage-lost", rule, "memoizing parsers", "-", "-", "no memoizing parser found")
	}
	// ... and Save itself records the result it is handed on every path to a return: a Save that declines some results
	// (nil node and nil error is what Any/Choice return for a failure at their own position) lets the wrapped parser run again
	var save *ssa.Function
	for _, fn := range c.P.LibFuncs {
		if fn.Synthetic == "" && isResultCacheMethod(fn, "Save") {
			save = fn
		}
	}
	if save == nil || len(save.Params) < 4 {
		c.R.Fail("coverage-lost", rule, "ResultCache.Save", "-", "-", "ResultCache.Save(parserIndex, pos, result) not found")
		return
	}
	found, bad := c.storesParamOnAllPaths(save, save.Params[3], 0)
	switch {
	case !found:
		c.R.Undecided(rule, "ResultCache.Save stores its result", c.name(save), c.P.Pos(save.Pos()), "no map store of the result parameter found in ResultCache.Save or the helpers it hands the result to")
	case bad != nil:
		c.R.Violation(rule, "ResultCache.Save return without store", c.name(save), c.P.InstrPos(bad), "a path through ResultCache.Save reaches this return without storing the result in the cache: the memoizing parser believes the result is cached, and the wrapped parser runs again at the same position")
	default:
		c.R.Hold(rule, "ResultCache.Save stores its result", "the map store of the result parameter dominates every return")
	}
}

// storesParamOnAllPaths: is there an instruction in fn that stores parameter p into a map (directly, or by handing it to a
// library helper that does so on all of its paths) and that dominates every return of fn? Returns whether such a store
// exists at all and, if it does not dominate every return, one return it does not cover.
func (c *Ctx) storesParamOnAllPaths(fn *ssa.Function, p *ssa.Parameter, depth int) (found bool, bad ssa.Instruction) {
	var stores []ssa.Instruction
	for _, b := range fn.Blocks {
		for _, in := range b.Instrs {
			switch x := in.(type) {
			case *ssa.MapUpdate:
				if ssax.Strip(x.Value) == ssa.Value(p) {
					stores = append(stores, in)
				}
			case *ssa.Call:
				sc := x.Call.StaticCallee()
				if sc == nil || depth >= 2 || !c.P.InLib(sc) || len(sc.Blocks) == 0 {
					continue
				}
				for i, a := range x.Call.Args {
					if ssax.Strip(a) == ssa.Value(p) && i < len(sc.Params) {
						if f, b := c.storesParamOnAllPaths(sc, sc.Params[i], depth+1); f && b == nil {
							stores = append(stores, in)
						}
					}
				}
			}
		}
	}
	if len(stores) == 0 {
		return false, nil
	}
	for _, r := range ssax.Returns(fn) {
		covered := false
		for _, st := range stores {
			sb := st.Block()
			if sb == r.Block() && ssax.Before(st, r) || sb != r.Block() && sb.Dominates(r.Block()) {
				covered = true
			}
		}
		if !covered {
			return true, r
		}
	}
	return true, nil
}

func (c *Ctx) ruleR03c(rule string) {
	c.R.Rule(rule, "parser index: captured, defined once in the constructor from an atomic increment of a counter nobody else writes; Save and Get index the cache with the same parameters", 2)
	a := c.Own()
	for _, m := range c.memos() {
		if !c.S.Parser[m.Fn] || m.Get == nil {
			continue
		}
		fn := c.name(m.Fn)
		idx := ssax.Strip(m.GetArgs[1])
		u, ok := idx.(*ssa.UnOp)
		fv, isFV := (ssa.Value)(nil), false
		if ok && u.Op == token.MUL {
			fv, isFV = u.X.(*ssa.FreeVar)
		}
		if !isFV && strings.HasPrefix(keyDesc(idx), "recv.") {
			if why := c.recvKeyDefinedOnce(m.Fn, idx); why == "" {
				c.R.Hold(rule, fn+" parser index", "a field of the parser value, stored once at construction from an atomic increment; no other writer")
			} else {
				c.R.Violation(rule, fn+" index definition", fn, c.P.InstrPos(m.Get), why)
			}
			continue
		}
		if !isFV {
			c.R.Violation(rule, fn+" index not captured", fn, c.P.InstrPos(m.Get), "the cache key is not a variable captured from the constructor ("+idx.String()+"): computed per call, two parsers or two calls of one parser can collide or diverge")
			continue
		}
		// binding in the parent
		var k int
		for i, f := range m.Fn.FreeVars {
			if f == fv {
				k = i
			}
		}
		par := m.Fn.Parent()
		good := false
		var gname string
		for _, b := range par.Blocks {
			for _, in := range b.Instrs {
				mc, ok := in.(*ssa.MakeClosure)
				if !ok || mc.Fn != m.Fn || k >= len(mc.Bindings) {
					continue
				}
				al, ok := mc.Bindings[k].(*ssa.Alloc)
				if !ok || al.Referrers() == nil {
					continue
				}
				stores := 0
				for _, r := range *al.Referrers() {
					if st, ok := r.(*ssa.Store); ok && st.Addr == al {
						stores++
						v := st.Val
						if cv, ok := v.(*ssa.Convert); ok {
							v = cv.X
						}
						if call, ok := v.(*ssa.Call); ok {
							if sc := call.Call.StaticCallee(); sc != nil && sc.Pkg != nil && sc.Pkg.Pkg.Path() == "sync/atomic" && strings.HasPrefix(sc.Name(), "Add") {
								if g, ok := call.Call.Args[0].(*ssa.Global); ok {
									if d, isC := ssax.ConstInt(call.Call.Args[1]); isC && d != 0 {
										good = true
										gname = c.P.Rel(g.Pkg.Pkg.Path()) + "." + g.Name()
									}
								}
							}
						}
					}
				}
				if stores != 1 {
					good = false
				}
			}
		}
		if !good {
			c.R.Violation(rule, fn+" index definition", fn, c.P.Pos(par.Pos()), "the captured parser index is not defined exactly once in the constructor from sync/atomic.Add*(&counter, nonzero constant): indexes may repeat, and two parsers then share cache entries")
			continue
		}
		// no other writer of the counter anywhere
		others := 0
		for _, f := range c.P.LibFuncs {
			if isInit(f) {
				continue
			}
			for _, e := range a.Info[f].SortedEffects() {
				if e.Root.K == own.RGlobal && e.Root.Obj == gname && e.In == f && len(e.Chain) == 0 {
					if f == par && e.Atomic && isAtomicRMW(strings.TrimPrefix(e.Via, "extern:")) {
						continue
					}
					others++
					c.R.Violation(rule, c.name(f)+" writes "+gname, c.name(f), c.P.InstrPos(e.Instr), "the parser-index counter "+gname+" has another writer: "+a.Describe(e))
				}
			}
		}
		if others == 0 {
			c.R.Hold(rule, fn+" parser index", "captured; one store in "+c.name(par)+" from atomic Add on "+gname+"; no other writer")
		}
	}
	// Save / Get index the map with the same parameters
	var get, save *ssa.Function
	for _, fn := range c.P.LibFuncs {
		if fn.Synthetic != "" {
			continue
		}
		if isResultCacheMethod(fn, "Get") {
			get = fn
		}
		if isResultCacheMethod(fn, "Save") {
			save = fn
		}
	}
	if get == nil || save == nil {
		c.R.Fail("coverage-lost", rule, "ResultCache methods", "-", "-", "Get/Save not found")
		return
	}
	gk := mapKeyParams(get)
	sk := mapKeyParams(save)
	if gk == "" || sk == "" || gk != sk {
		c.R.Violation(rule, "ResultCache key order", c.name(save), c.P.Pos(save.Pos()), fmt.Sprintf("Save indexes the cache by %q, Get by %q: a saved result is not found under the key it was saved with", sk, gk))
	} else {
		c.R.Hold(rule, "ResultCache.Save/Get", "both index rc["+strings.ReplaceAll(gk, ",", "][")+"]")
	}
}

// mapKeyParams describes, for a ResultCache method, which parameters index the outer and the inner map ("idx,pos").
// The inner map may be reached directly (rc[a][b]) or through a local (m := rc[a]; m[b]).
func mapKeyParams(fn *ssa.Function) string {
	pidx := func(v ssa.Value) int {
		for i, p := range fn.Params {
			if p == v {
				return i
			}
		}
		return -1
	}
	recv := fn.Params[0]
	// inner: values that are rc[...] (or the fresh map stored into rc[...])
	var derivesInner func(v ssa.Value, depth int) bool
	derivesInner = func(v ssa.Value, depth int) bool {
		if depth > 6 {
			return false
		}
		for _, l := range ssax.Leaves(v) {
			switch x := l.(type) {
			case *ssa.Lookup:
				if x.X == ssa.Value(recv) {
					return true
				}
			case *ssa.Extract:
				if lk, ok := x.Tuple.(*ssa.Lookup); ok && lk.X == ssa.Value(recv) && x.Index == 0 {
					return true
				}
			case *ssa.MakeMap:
				// stored into the outer map?
				if x.Referrers() != nil {
					for _, r := range *x.Referrers() {
						if mu, ok := r.(*ssa.MapUpdate); ok && mu.Map == ssa.Value(recv) && mu.Value == ssa.Value(x) {
							return true
						}
					}
				}
			}
		}
		return false
	}
	outer, inner := -1, -1
	set := func(dst *int, k int) bool {
		if k < 0 {
			return false
		}
		if *dst == -1 || *dst == k {
			*dst = k
			return true
		}
		return false
	}
	for _, b := range fn.Blocks {
		for _, in := range b.Instrs {
			switch x := in.(type) {
			case *ssa.Lookup:
				if x.X == ssa.Value(recv) {
					if !set(&outer, pidx(x.Index)) {
						return ""
					}
				} else if derivesInner(x.X, 0) {
					if !set(&inner, pidx(x.Index)) {
						return ""
					}
				}
			case *ssa.MapUpdate:
				if x.Map == ssa.Value(recv) {
					if !set(&outer, pidx(x.Key)) {
						return ""
					}
				} else if derivesInner(x.Map, 0) {
					if !set(&inner, pidx(x.Key)) {
						return ""
					}
				}
			}
		}
	}
	if outer < 0 || inner < 0 {
		return ""
	}
	return fmt.Sprintf("%s,%s", fn.Params[outer].Name(), fn.Params[inner].Name())
}

func (c *Ctx) ruleR03d(rule string) {
	c.R.Rule(rule, "non-empty IntSet constructions in parser scope occur only on the curtailment return of a memoizing parser", 1)
	memoFns := map[*ssa.Function]*Memo{}
	for _, m := range c.memos() {
		memoFns[m.Fn] = m
	}
	dataPkg := c.P.Lib["data"]
	for _, fn := range c.S.Sorted(c.S.Parser) {
		if fn.Synthetic != "" || (dataPkg != nil && fn.Pkg != nil && fn.Pkg.Pkg == dataPkg.Types) {
			continue
		}
		for _, call := range ssax.Calls(fn) {
			cl, ok := call.(*ssa.Call)
			if !ok {
				continue
			}
			sc := cl.Call.StaticCallee()
			if sc == nil || sc.Pkg == nil || dataPkg == nil || sc.Pkg.Pkg != dataPkg.Types {
				continue
			}
			nonEmpty := false
			switch {
			case sc.Name() == "NewIntSet":
				// varargs: non-empty unless the argument is the nil slice
				nonEmpty = len(cl.Call.Args) > 0 && !ssax.IsNilConst(cl.Call.Args[0])
			case sc.Name() == "Insert":
				nonEmpty = true
			}
			if !nonEmpty {
				continue
			}
			site := c.name(fn) + " " + sc.Name() + " @" + c.P.InstrPos(cl)
			m := memoFns[fn]
			ok2 := false
			if m != nil && m.Get != nil && len(m.GetArgs) == 4 {
				P := ownParam(fn, "parsley", "Pos")
				L := ownParam(fn, "data", "IntMap")
				for _, cd := range ssax.DominatingConds(cl.Block()) {
					if _, onTrue, isC := c.curtailTest(fn, cd.Val, L, P, m.GetArgs[1]); isC && cd.Truth == onTrue {
						ok2 = true
					}
				}
			}
			if ok2 {
				c.R.Hold(rule, site, "on the curtailment branch")
			} else {
				c.R.Violation(rule, c.name(fn)+" builds a non-empty IntSet", c.name(fn), c.P.InstrPos(cl), "a non-empty curtailing set is created outside the curtailment branch of a memoizing parser: results of left-recursion-free grammars then carry a context, cached entries can be refused, and a wrapped parser can run more than once per position")
			}
		}
	}
}

var nondetPkgs = map[string]bool{"time": false, "math/rand": true, "math/rand/v2": true, "os": true, "runtime": true, "crypto/rand": true, "syscall": true, "net": true, "sync": true}

func (c *Ctx) ruleR03e(rule string) {
	c.R.Rule(rule, "parser scope: no call into time.Now/rand/os/runtime/sync, no pointer formatting; every range over a map is order-insensitive", 3)
	a := c.Own()
	for _, fn := range c.S.Sorted(c.S.Parser) {
		if fn.Synthetic != "" {
			continue
		}
		for _, b := range fn.Blocks {
			for _, in := range b.Instrs {
				switch x := in.(type) {
				case ssa.CallInstruction:
					sc := x.Common().StaticCallee()
					if sc == nil || sc.Pkg == nil {
						continue
					}
					pp := sc.Pkg.Pkg.Path()
					bad := nondetPkgs[pp]
					if pp == "time" && (sc.Name() == "Now" || sc.Name() == "Since" || sc.Name() == "Until" || sc.Name() == "Sleep" || sc.Name() == "After" || sc.Name() == "Tick") {
						bad = true
					}
					if bad {
						c.R.Violation(rule, c.name(fn)+" calls "+pp+"."+sc.Name(), c.name(fn), c.P.InstrPos(in), "parse-time code calls "+pp+"."+sc.Name()+": results or call counts can differ between two runs on the same input")
					}
				case *ssa.Range:
					if _, isMap := x.X.Type().Underlying().(*types.Map); !isMap {
						continue
					}
					site := c.name(fn) + " range over map @" + c.P.InstrPos(x)
					if why := c.mapRangeOrderInsensitive(a, fn, x); why != "" {
						c.R.Hold(rule, site, why)
					} else {
						c.R.Violation(rule, c.name(fn)+" map-order dependent range", c.name(fn), c.P.InstrPos(x), "iteration over a map whose body is not one of the verified order-insensitive shapes (copy into a fresh map; fill a fresh slice consumed order-insensitively; callback with no parse-time caller): Go randomises map order, so results or call counts may differ between runs")
					}
				}
			}
		}
	}
	c.R.Hold(rule, fmt.Sprintf("%d functions in parser scope", len(c.S.Parser)), "no call into rand/os/runtime/sync/time.Now")
}

// mapRangeOrderInsensitive classifies the body of a range-over-map loop; "" = not recognised.
func (c *Ctx) mapRangeOrderInsensitive(a *own.Analysis, fn *ssa.Function, rg *ssa.Range) string {
	// loop blocks: those dominated by the block holding the Next instruction that can reach it again
	var next *ssa.Next
	if rg.Referrers() != nil {
		for _, r := range *rg.Referrers() {
			if n, ok := r.(*ssa.Next); ok {
				next = n
			}
		}
	}
	if next == nil {
		return ""
	}
	head := next.Block()
	var body []*ssa.BasicBlock
	for _, b := range fn.Blocks {
		if head.Dominates(b) && ssax.Reaches(b, head, true) {
			body = append(body, b)
		}
	}
	fi := a.Info[fn]
	kind := ""
	for _, b := range body {
		for _, in := range b.Instrs {
			switch x := in.(type) {
			case *ssa.Next, *ssa.Extract, *ssa.If, *ssa.Jump, *ssa.BinOp, *ssa.Phi, *ssa.IndexAddr, *ssa.UnOp, *ssa.DebugRef, *ssa.FieldAddr, *ssa.Lookup, *ssa.Alloc, *ssa.Slice, *ssa.MakeSlice, *ssa.Convert, *ssa.ChangeType:
			case *ssa.MapUpdate:
				for o := range fi.Origins(x.Map) {
					if o.Root.K != own.RFresh {
						return ""
					}
				}
				if kind == "" {
					kind = "(i) body only inserts into a map allocated in this activation"
				}
			case *ssa.Store:
				ia, ok := x.Addr.(*ssa.IndexAddr)
				if !ok {
					return ""
				}
				for o := range fi.Origins(ia.X) {
					if o.Root.K != own.RFresh {
						return ""
					}
				}
				// (ii) the slice filled in map order: every parse-time consumer must be order-insensitive
				if !c.keysConsumersOrderInsensitive(fn) {
					return ""
				}
				kind = "(ii) body fills a fresh slice; its parse-time consumers only test elements and return constants"
			case *ssa.Call:
				if bi, isB := x.Call.Value.(*ssa.Builtin); isB {
					switch bi.Name() {
					case "len", "cap":
						continue
					case "append":
						// (ii) with append instead of an indexed store: the slice must be this activation's own
						for o := range fi.Origins(x.Call.Args[0]) {
							if o.Root.K != own.RFresh {
								return ""
							}
						}
						if !c.keysConsumersOrderInsensitive(fn) {
							return ""
						}
						kind = "(ii) body appends to a fresh slice; its parse-time consumers only test elements and return constants"
						continue
					}
					return ""
				}
				// (iii) callback iteration: acceptable only if no parse-time caller
				if prm, isParam := x.Call.Value.(*ssa.Parameter); isParam && !x.Call.IsInvoke() {
					pidx := -1
					for i, p := range fn.Params {
						if p == prm {
							pidx = i
						}
					}
					parseTime := false
					for _, e := range c.P.Callers(fn) {
						if !c.S.Parser[e.Caller.Func] || e.Caller.Func.Synthetic != "" {
							continue
						}
						parseTime = true
						// a parse-time caller: fine if the callback it passes does the same thing in any order
						okCb := false
						if e.Site != nil && pidx >= 0 && pidx < len(e.Site.Common().Args) {
							if mc, ok := e.Site.Common().Args[pidx].(*ssa.MakeClosure); ok {
								okCb = commutativeCallback(mc.Fn.(*ssa.Function))
							}
						}
						if !okCb {
							return ""
						}
					}
					if parseTime {
						kind = "(iii') callback iteration; every callback passed at parse time only inserts into a map or stores constants into captured variables (order-insensitive)"
					} else {
						kind = "(iii) callback iteration with no caller in parser scope"
					}
					continue
				}
				return ""
			default:
				return ""
			}
		}
	}
	return kind
}

// keysConsumersOrderInsensitive: every caller (in parser scope) of fn — a function returning a slice filled in
// map order — uses the result only in a loop whose body calls pure IntMap getters, compares and returns constants.
func (c *Ctx) keysConsumersOrderInsensitive(fn *ssa.Function) bool {
	for _, e := range c.P.Callers(fn) {
		g := e.Caller.Func
		if !c.S.Parser[g] || g.Synthetic != "" || e.Site == nil {
			continue
		}
		cv, ok := e.Site.(*ssa.Call)
		if !ok {
			return false
		}
		// all uses: len, IndexAddr->load
		if cv.Referrers() == nil {
			continue
		}
		for _, r := range *cv.Referrers() {
			switch x := r.(type) {
			case *ssa.IndexAddr, *ssa.DebugRef:
			case *ssa.Call:
				if b, isB := x.Call.Value.(*ssa.Builtin); !isB || b.Name() != "len" {
					return false
				}
			default:
				return false
			}
		}
		// the consuming function must have no effects on non-fresh memory and return only constants / one entry value
		for _, eff := range c.Own().Info[g].SortedEffects() {
			if eff.Root.K != own.RFresh {
				return false
			}
		}
		// what the consumer returns must not be computed from a key or from its place in the slice: only which exit
		// of the loop was taken (a property of the key SET) may decide it
		for _, r := range ssax.Returns(g) {
			for _, rv := range r.Results {
				if derivedFromSlice(rv, cv, map[ssa.Value]bool{}) {
					return false
				}
			}
		}
	}
	return true
}

// derivedFromSlice: v is computed (by data flow) from an element of slice s or from an index into it.
func derivedFromSlice(v ssa.Value, s ssa.Value, seen map[ssa.Value]bool) bool {
	if seen[v] {
		return false
	}
	seen[v] = true
	switch x := v.(type) {
	case *ssa.IndexAddr:
		return x.X == s || derivedFromSlice(x.X, s, seen) || derivedFromSlice(x.Index, s, seen)
	case *ssa.Const, *ssa.Parameter, *ssa.FreeVar, *ssa.Global, *ssa.Function, *ssa.Builtin:
		return false
	case *ssa.Phi:
		// a loop index over s
		for _, e := range x.Edges {
			if derivedFromSlice(e, s, seen) {
				return true
			}
		}
		if x.Referrers() != nil {
			for _, r := range *x.Referrers() {
				if ia, ok := r.(*ssa.IndexAddr); ok && ia.X == s && ia.Index == ssa.Value(x) {
					return true
				}
			}
		}
		return false
	case *ssa.Call:
		for _, a := range x.Call.Args {
			if derivedFromSlice(a, s, seen) {
				return true
			}
		}
		return false
	case ssa.Instruction:
		for _, op := range x.Operands(nil) {
			if *op != nil && derivedFromSlice(*op, s, seen) {
				return true
			}
		}
	}
	return false
}

// recvKeyDefinedOnce: the receiver field used as cache key has exactly one store in the library, from
// sync/atomic.Add*(&counter, nonzero constant), and the counter has no other writer. Returns "" when fine.
func (c *Ctx) recvKeyDefinedOnce(fn *ssa.Function, idx ssa.Value) string {
	u, ok := ssax.Strip(idx).(*ssa.UnOp)
	var fv *types.Var
	if ok {
		if fa, ok := u.X.(*ssa.FieldAddr); ok {
			fv = fieldVar(fa)
		}
	}
	if f, ok := ssax.Strip(idx).(*ssa.Field); ok {
		fv = f.X.Type().Underlying().(*types.Struct).Field(f.Field)
	}
	if fv == nil {
		return "the cache key is not a plain field of the receiver"
	}
	stores := 0
	good := false
	gname := ""
	for _, g := range c.P.LibFuncs {
		for _, b := range g.Blocks {
			for _, in := range b.Instrs {
				st, ok := in.(*ssa.Store)
				if !ok {
					continue
				}
				fa, ok := st.Addr.(*ssa.FieldAddr)
				if !ok || fieldVar(fa) != fv {
					continue
				}
				stores++
				v := st.Val
				if cv, ok := v.(*ssa.Convert); ok {
					v = cv.X
				}
				if call, ok := v.(*ssa.Call); ok {
					if sc := call.Call.StaticCallee(); sc != nil && sc.Pkg != nil && sc.Pkg.Pkg.Path() == "sync/atomic" && strings.HasPrefix(sc.Name(), "Add") {
						if gl, ok := call.Call.Args[0].(*ssa.Global); ok {
							if d, isC := ssax.ConstInt(call.Call.Args[1]); isC && d != 0 {
								good = true
								gname = c.P.Rel(gl.Pkg.Pkg.Path()) + "." + gl.Name()
							}
						}
					}
				}
			}
		}
	}
	if stores != 1 || !good {
		return fmt.Sprintf("the parser-index field %s is stored %d time(s) and not exactly once from sync/atomic.Add*(&counter, nonzero constant): indexes may repeat, and two parsers then share cache entries", fv.Name(), stores)
	}
	a := c.Own()
	for _, f := range c.P.LibFuncs {
		if isInit(f) {
			continue
		}
		for _, e := range a.Info[f].SortedEffects() {
			if e.Root.K == own.RGlobal && e.Root.Obj == gname && e.In == f && len(e.Chain) == 0 {
				if e.Atomic && isAtomicRMW(strings.TrimPrefix(e.Via, "extern:")) {
					continue
				}
				return "the parser-index counter " + gname + " has another writer in " + c.name(f)
			}
		}
	}
	return ""
}

// commutativeCallback: the closure's effects are map inserts and stores of constants into captured variables, and it
// calls nothing but builtins and the library's own read-only accessors: running it over the entries in any order
// leaves the same state.
func commutativeCallback(g *ssa.Function) bool {
	for _, b := range g.Blocks {
		for _, in := range b.Instrs {
			switch x := in.(type) {
			case *ssa.Store:
				if _, isFV := x.Addr.(*ssa.FreeVar); !isFV {
					return false
				}
				if _, isC := x.Val.(*ssa.Const); !isC {
					return false
				}
			case *ssa.MapUpdate:
			case *ssa.Call:
				if _, isB := x.Call.Value.(*ssa.Builtin); isB {
					continue
				}
				sc := x.Call.StaticCallee()
				if sc == nil || x.Call.IsInvoke() {
					return false
				}
				if _, ok := isStaticMethod(x, "data", "IntMap", "Get"); ok {
					continue
				}
				if _, ok := isStaticMethod(x, "data", "IntSet", "Len"); ok {
					continue
				}
				return false
			case *ssa.Go, *ssa.Defer, *ssa.Send, *ssa.Panic:
				return false
			}
		}
	}
	return true
}
