package rules

import (
	"fmt"
	"go/token"
	"go/types"

	"golang.org/x/tools/go/ssa"

	"pv/internal/own"
	"pv/internal/report"
	"pv/internal/ssax"
)

func init() {
	register(&Property{ID: "C01", Run: runC01, Meta: report.Meta{ID: "C01",
		Explanation: "DECIDED (for all grammars and inputs at once): four structural lemmas the Frost-Hafiz-Callaghan argument relies on, each a necessary condition of 'every derivation is returned' — R01a no combinator writes into the backing array of an alternative list it did not allocate (two consumers of one cached list cannot overwrite each other's alternatives); R01b the curtailing set of every nested parser call reaches the curtailing set returned to the caller (so Memoize above it stores a result with the full context it depends on); R01c the left-recursion context and the merge flag are reset only behind a guard proving progress of the position (shared with C02); R01d a cached result is reused only where at least as much recursion was allowed: the stored context keeps the incoming counters of (at least) the wrapped call's curtailing parsers, what is stored/replayed are the wrapped call's own results, and ResultCache.Get rejects exactly when a stored count exceeds the current one over all stored keys. NOT DECIDED: soundness and completeness of the returned trees as a whole, first-match / longest-path semantics of Choice/Many/SepBy (run-time values).",
		Assumptions: commonAssumptions, TrustedBase: commonTrusted}})
}

func runC01(c *Ctx) {
	c.U0()
	c.ruleR07a("R01a no-aliasing-in-alternative-lists", 3, func(e *own.Effect) bool {
		// only the list storage: elements of node slices and list variables
		return e.ElemOf != nil || (e.Owner == nil && e.LocType != nil)
	}, "combinator", "parser", "ast", "parsley", "data") // C01 quantifies over the combinator set; the trimming wrappers of package text are C10/C07
	c.ruleR01b("R01b curtailing-set-propagation")
	c.ruleR02c("R01c reset-only-after-progress", true)
	c.ruleR01d("R01d cache-reuse-condition", false)
	c.ruleCacheIdentity("R01d' cache-stores-what-it-returns")
}

func isUnionCall(call *ssa.Call) bool {
	_, ok := isStaticMethod(call, "data", "IntSet", "Union")
	return ok
}

// ruleR01b: the curtailing set of each nested parse call flows into the curtailing set returned.
func (c *Ctx) ruleR01b(rule string) {
	c.R.Rule(rule, "for every nested parser call, every return of the enclosing parser reachable from it returns a curtailing set that depends on the call's curtailing set (through IntSet.Union, phis, and the sequence's accumulator field)", 12)
	memoFns := map[*ssa.Function]bool{}
	for _, m := range c.memos() {
		memoFns[m.Fn] = true
	}
	for _, fn := range c.S.Sorted(c.S.Parser) {
		if fn.Synthetic != "" {
			continue
		}
		for _, call := range ssax.Calls(fn) {
			cl, ok := call.(*ssa.Call)
			if !ok || !ssax.IsParseCall(cl) {
				continue
			}
			site := c.name(fn) + " call @" + c.P.InstrPos(cl)
			cps := ssax.Extracts(cl, 1)
			var srcs []ssa.Value
			for _, e := range cps {
				srcs = append(srcs, e)
			}
			fl := c.forward(srcs, func(k *ssa.Call, i int) bool { return isUnionCall(k) })
			// the returns that must carry it
			var targets []*ssa.Return
			var where *ssa.Function
			if ssax.IsParserSig(fn.Signature) {
				where = fn
				for _, r := range ssax.Returns(fn) {
					if r.Block() == cl.Block() || ssax.Reaches(cl.Block(), r.Block(), false) {
						targets = append(targets, r)
					}
				}
			} else {
				// helper of a parser (the sequence recursion): the enclosing parser-signature callers
				for _, g := range c.helperOwners(fn) {
					where = g
					for _, r := range ssax.Returns(g) {
						targets = append(targets, r)
					}
				}
				if where == nil {
					c.R.Undecided(rule, c.name(fn)+" nested call in unowned helper", c.name(fn), c.P.InstrPos(cl), "a parser is called from a helper that no parser-signature function of the library statically calls")
					continue
				}
			}
			bad := 0
			for _, r := range targets {
				if len(r.Results) != 3 {
					continue
				}
				if fl.Rets[retUse{r, 1}] || fl.Vals[r.Results[1]] {
					// may-flow holds; in the function containing the call it must hold on every path from the call
					if where == fn {
						src := map[ssa.Value]bool{}
						for _, e := range cps {
							src[e] = true
						}
						if !mustDepend(r.Results[1], src, cl.Block(), isUnionCall) {
							bad++
							c.R.Violation(rule, fmt.Sprintf("%s conditionally drops curtailing set", c.name(where)), c.name(where), c.P.InstrPos(r),
								fmt.Sprintf("on some path from the parser call at %s to the return at %s the returned curtailing set does not include the call's curtailing set (it is merged only conditionally)", c.P.InstrPos(cl), c.P.InstrPos(r)))
						}
					}
					continue
				}
				// tabled exemptions
				if ex := c.exemptR01b(where, r); ex != "" {
					c.R.Exempt(c.name(where)+" return @"+c.P.InstrPos(r), ex)
					continue
				}
				bad++
				c.R.Violation(rule, fmt.Sprintf("%s drops curtailing set of call in %s", c.name(where), c.name(fn)), c.name(where), c.P.InstrPos(r),
					fmt.Sprintf("the return at %s yields a curtailing set that does not depend on the curtailing set of the parser call at %s: a Memoize above stores this result as valid for more contexts than it is, and reuses it where deeper recursion was allowed (derivations are lost)", c.P.InstrPos(r), c.P.InstrPos(cl)))
			}
			// accumulation through a struct field: the store may be guarded by merge flags (bool parameters, whose
			// discipline R01c decides) and by nothing else
			for _, st := range fl.Stores {
				if st.Block().Parent() != fn {
					continue
				}
				for _, cd := range ssax.DominatingConds(st.Block()) {
					if cd.At.Dominates(cl.Block()) && cd.At != cl.Block() {
						continue // the condition also governs the call itself
					}
					if _, isParam := cd.Val.(*ssa.Parameter); isParam {
						continue
					}
					if ci, isI := cd.Val.(ssa.Instruction); isI && ci.Block() == cl.Block() && ssax.Before(ci, cl) {
						continue
					}
					bad++
					c.R.Violation(rule, fmt.Sprintf("%s merges curtailing set under a foreign condition", c.name(fn)), c.name(fn), c.P.InstrPos(st),
						fmt.Sprintf("the curtailing set of the parser call at %s is merged into the accumulator only under the condition %s, which is not a merge flag parameter: curtailing parsers of some sub-results are dropped, so cached results claim a smaller context than they depend on", c.P.InstrPos(cl), cd.Val.String()))
				}
			}
			if bad == 0 {
				c.R.Hold(rule, site, fmt.Sprintf("reaches result[1] of %d return(s) of %s on every path", len(targets), c.name(where)))
			}
		}
	}
}

// helperOwners: parser-signature functions from which fn is reachable through static calls to non-parser helpers.
func (c *Ctx) helperOwners(fn *ssa.Function) []*ssa.Function {
	seen := map[*ssa.Function]bool{}
	var out []*ssa.Function
	var walk func(f *ssa.Function)
	walk = func(f *ssa.Function) {
		if seen[f] {
			return
		}
		seen[f] = true
		for _, e := range c.P.Callers(f) {
			g := e.Caller.Func
			if !c.P.InLib(g) || e.Site == nil || e.Site.Common().StaticCallee() != f {
				continue
			}
			if ssax.IsParserSig(g.Signature) {
				dup := false
				for _, o := range out {
					if o == g {
						dup = true
					}
				}
				if !dup {
					out = append(out, g)
				}
				continue
			}
			walk(g)
		}
	}
	walk(fn)
	return out
}

// exemptR01b: returns that legitimately discard the whole sub-result.
func (c *Ctx) exemptR01b(fn *ssa.Function, r *ssa.Return) string {
	// (1) whitespace-error returns of the trimming wrappers: (nil, EmptyIntSet, wsErr) with wsErr from SkipWhitespaces
	if ssax.IsNilConst(ssax.Strip(r.Results[0])) {
		for _, l := range ssax.Leaves(r.Results[2]) {
			if dependsOnCallNamed(l, "SkipWhitespaces") {
				return "whitespace-error return: the whole sub-result is discarded and the parse fails with the mode's error (C10); outside C01's combinator set"
			}
		}
	}
	return ""
}

func dependsOnCallNamed(v ssa.Value, name string) bool {
	seen := map[ssa.Value]bool{}
	var walk func(ssa.Value) bool
	walk = func(x ssa.Value) bool {
		x = ssax.Strip(x)
		if seen[x] {
			return false
		}
		seen[x] = true
		switch y := x.(type) {
		case *ssa.Extract:
			return walk(y.Tuple)
		case *ssa.Call:
			if sc := y.Call.StaticCallee(); sc != nil && sc.Name() == name {
				return true
			}
			if y.Call.IsInvoke() && y.Call.Method.Name() == name {
				return true
			}
		case *ssa.Phi:
			for _, e := range y.Edges {
				if walk(e) {
					return true
				}
			}
		case *ssa.UnOp:
			// load of a captured/local variable: follow the stores into it within the program
			if y.Op == token.MUL {
				return walkStores(y.X, walk)
			}
		}
		return false
	}
	return walk(v)
}

// walkStores applies f to every value stored to addr (a local or captured variable) in its function and closures.
func walkStores(addr ssa.Value, f func(ssa.Value) bool) bool {
	var allocs []ssa.Value
	switch a := addr.(type) {
	case *ssa.Alloc:
		allocs = append(allocs, a)
	case *ssa.FreeVar:
		allocs = append(allocs, a)
	default:
		return false
	}
	for _, al := range allocs {
		refs := al.Referrers()
		if refs == nil {
			continue
		}
		for _, r := range *refs {
			switch x := r.(type) {
			case *ssa.Store:
				if x.Addr == al && f(x.Val) {
					return true
				}
			case *ssa.MakeClosure:
				// stores inside the closure through the corresponding free variable
				if fn, ok := x.Fn.(*ssa.Function); ok {
					for i, b := range x.Bindings {
						if b == al && i < len(fn.FreeVars) {
							if walkStores(fn.FreeVars[i], f) {
								return true
							}
						}
					}
				}
			}
		}
	}
	return false
}

// ruleR01d: reuse condition of the cache. strictPrune additionally demands that the stored context is pruned
// to the wrapped call's curtailing set on every path (needed for at-most-once, C03).
func (c *Ctx) ruleR01d(rule string, strictPrune bool) {
	c.R.Rule(rule, "the context stored with a cached result is the incoming context or its Filter by a set including the wrapped call's curtailing set; ResultCache.Get returns not-found only for a missing entry or when stored.Get(k) > current.Get(k) for a key k ranging over all stored keys", 3)
	n := 0
	for _, m := range c.memos() {
		if !c.S.Parser[m.Fn] || m.Wrapped == nil || m.Result == nil {
			continue
		}
		n++
		fn := c.name(m.Fn)
		L := ownParam(m.Fn, "data", "IntMap")
		vs := m.Stored["LeftRecCtx"]
		if len(vs) != 1 || L == nil {
			c.R.Violation(rule, fn+" stores Result.LeftRecCtx", fn, c.P.InstrPos(m.Save), fmt.Sprintf("Result.LeftRecCtx is stored %d times; expected once", len(vs)))
			continue
		}
		ok := true
		why := ""
		for _, l := range ssax.Leaves(vs[0]) {
			if l == L {
				if strictPrune {
					ok = false
					why = "the unpruned incoming context is stored on some path: the entry is then refused for callers with smaller counters although it does not depend on them, so the wrapped parser runs again at the same position"
				}
				continue
			}
			fc, isF := isStaticMethod(l, "data", "IntMap", "Filter")
			if !isF || len(fc.Call.Args) != 2 || fc.Call.Args[0] != L {
				ok = false
				why = "the stored context is " + l.String() + ", neither the incoming context nor its Filter"
				continue
			}
			// the filter set must include the wrapped call's curtailing set
			inc := false
			for _, e := range ssax.Extracts(m.Wrapped, 1) {
				if dependsOn(fc.Call.Args[1], e, isUnionCall) {
					inc = true
				}
			}
			if !inc {
				ok = false
				why = "the stored context is filtered by a set that does not include the wrapped call's curtailing parsers: counters the result depends on are forgotten, and the result is reused where deeper recursion was allowed"
			}
			if strictPrune && inc && !isExtractOf(fc.Call.Args[1], m.Wrapped, 1) {
				ok = false
				why = "the stored context is filtered by a superset of the wrapped call's curtailing parsers; for at-most-once it has to be exactly that set"
			}
		}
		if ok {
			c.R.Hold(rule, fn+" Result.LeftRecCtx", "incoming context filtered by the wrapped call's curtailing set")
		} else {
			c.R.Violation(rule, fn+" stored context", fn, c.P.InstrPos(m.Save), why)
		}
	}
	if n == 0 {
		c.R.Fail("coverage-lost", rule, "memoizing parsers", "-", "-", "no memoizing parser found")
	}
	c.checkCacheGet(rule)
}

// checkCacheGet analyses (parsley.ResultCache).Get.
func (c *Ctx) checkCacheGet(rule string) {
	var get *ssa.Function
	for _, fn := range c.P.LibFuncs {
		if fn.Synthetic == "" && isResultCacheMethod(fn, "Get") {
			get = fn
		}
	}
	if get == nil {
		c.R.Fail("coverage-lost", rule, "ResultCache.Get", "-", "-", "(parsley.ResultCache).Get not found")
		return
	}
	fn := c.name(get)
	L := ownParam(get, "data", "IntMap")
	if L == nil {
		c.R.Undecided(rule, fn+" shape", fn, c.P.Pos(get.Pos()), "Get has no unique context parameter")
		return
	}
	// the entry: a comma-ok map lookup chain on the receiver
	var entry, found ssa.Value
	for _, b := range get.Blocks {
		for _, in := range b.Instrs {
			if lk, ok := in.(*ssa.Lookup); ok && lk.CommaOk {
				if ptr, isPtr := lk.Type().(*types.Tuple).At(0).Type().(*types.Pointer); isPtr && ssax.NamedIs(ptr.Elem(), "parsley", "Result") {
					for _, e := range ssax.Extracts(lk, 0) {
						entry = e
					}
					for _, e := range ssax.Extracts(lk, 1) {
						found = e
					}
				}
			}
		}
	}
	if entry == nil || found == nil {
		c.R.Undecided(rule, fn+" shape", fn, c.P.Pos(get.Pos()), "Get does not look the entry up with a comma-ok map access yielding *Result")
		return
	}
	for _, r := range ssax.Returns(get) {
		if len(r.Results) != 2 {
			continue
		}
		site := fn + " return @" + c.P.InstrPos(r)
		fv, isC := ssax.ConstBool(r.Results[1])
		if !isC {
			c.R.Undecided(rule, fn+" non-constant found result", fn, c.P.InstrPos(r), "Get returns a computed `found` flag; the recognised shape returns constants")
			continue
		}
		conds := ssax.DominatingConds(r.Block())
		if fv {
			if ssax.Strip(r.Results[0]) != entry {
				c.R.Violation(rule, fn+" hit returns other value", fn, c.P.InstrPos(r), "on success Get returns something else than the looked-up entry")
			} else {
				c.R.Hold(rule, site, "returns the looked-up entry")
			}
			continue
		}
		// not-found exits
		okExit := false
		desc := ""
		for _, cd := range conds {
			if cd.Val == found && !cd.Truth {
				okExit = true
				desc = "no entry"
			}
			op, x, y, isCmp := ssax.CmpOp(cd.Val)
			if !isCmp {
				continue
			}
			if !cd.Truth {
				op = ssax.Negate(op)
			}
			gx, okx := isStaticMethod(x, "data", "IntMap", "Get")
			gy, oky := isStaticMethod(y, "data", "IntMap", "Get")
			if !okx || !oky {
				continue
			}
			storedOf := func(g *ssa.Call) bool {
				base, name, isLoad := fieldLoad(ssax.Strip(g.Call.Args[0]))
				return isLoad && name == "LeftRecCtx" && base == entry
			}
			curOf := func(g *ssa.Call) bool { return g.Call.Args[0] == L }
			sameKey := gx.Call.Args[1] == gy.Call.Args[1]
			switch {
			case storedOf(gx) && curOf(gy) && sameKey && (op == token.GTR || op == token.GEQ):
				okExit, desc = true, "stored count > current count"
			case curOf(gx) && storedOf(gy) && sameKey && (op == token.LSS || op == token.LEQ):
				okExit, desc = true, "current count < stored count"
			case (storedOf(gx) && curOf(gy) || curOf(gx) && storedOf(gy)) && sameKey:
				c.R.Violation(rule, fn+" reuse test direction", fn, c.P.InstrPos(r), fmt.Sprintf("Get rejects a cached result under the comparison %s between stored and current counts: the reuse condition is 'stored count <= current count for every stored key'; with the direction changed results computed under a tighter context are reused where more recursion was allowed", op))
				okExit, desc = true, "(reported)"
			}
			if okExit && desc != "no entry" && desc != "(reported)" {
				// the key must range over the stored context's keys
				if !keyRangesOverStored(gx.Call.Args[1], entry) {
					c.R.Violation(rule, fn+" key range", fn, c.P.InstrPos(r), "the reuse test does not iterate over the keys of the stored context (IntMap.Keys of entry.LeftRecCtx): some stored counter is never compared")
				}
			}
		}
		if okExit {
			c.R.Hold(rule, site, "not-found exit: "+desc)
		} else {
			c.R.Violation(rule, fn+" extra not-found exit", fn, c.P.InstrPos(r), "Get returns not-found on a path that is neither 'no entry' nor 'stored count exceeds current count': cached results are refused (or the test was weakened) outside the reuse condition")
		}
	}
}

// keyRangesOverStored: key is an element of IntMap.Keys(entry.LeftRecCtx).
func keyRangesOverStored(key ssa.Value, entry ssa.Value) bool {
	u, ok := key.(*ssa.UnOp)
	if !ok || u.Op != token.MUL {
		return false
	}
	ia, ok := u.X.(*ssa.IndexAddr)
	if !ok {
		return false
	}
	for _, l := range ssax.Leaves(ia.X) {
		kc, isK := isStaticMethod(l, "data", "IntMap", "Keys")
		if !isK {
			return false
		}
		base, name, isLoad := fieldLoad(ssax.Strip(kc.Call.Args[0]))
		if !isLoad || name != "LeftRecCtx" || base != entry {
			return false
		}
	}
	return true
}
