package rules

import (
	"fmt"
	"go/token"
	"go/types"

	"golang.org/x/tools/go/ssa"

	"pv/internal/own"
	"pv/internal/report"
	"pv/internal/ssax"
)

func init() {
	register(&Property{ID: "C01", Run: runC01, Meta: report.Meta{ID: "C01",
		Explanation: "DECIDED (for all grammars and inputs at once): four structural lemmas the Frost-Hafiz-Callaghan argument relies on, each a necessary condition of 'every derivation is returned' — R01a no combinator writes into the backing array of an alternative list it did not allocate (two consumers of one cached list cannot overwrite each other's alternatives); R01b the curtailing set of every nested parser call reaches the curtailing set returned to the caller (so Memoize above it stores a result with the full context it depends on); R01c the left-recursion context and the merge flag are reset only behind a guard proving progress of the position (shared with C02); R01d a cached result is reused only where at least as much recursion was allowed: the stored context keeps the incoming counters of (at least) the wrapped call's curtailing parsers, what is stored/replayed are the wrapped call's own results, and ResultCache.Get — decided over its enumerated paths, whatever the loop looks like — ends in a hit only where the entry was found, every key of the stored context was visited and no stored count exceeded the current one, and in a miss only where there was no entry or some count did exceed; R01f the length predicates of SeqOf/SeqTry/SeqFirstOrAll/Many are the documented ones (folded over small lengths) and the count they capture is len() of the parser list.; R01h SepBy alternates value and separator by index parity and accepts exactly the empty (if allowed) and odd-length chains; R01g Optional returns, on every path, the wrapped parser's alternatives together with the empty match. NOT DECIDED: soundness and completeness of the returned trees as a whole, first-match / longest-path semantics of Choice/Many/SepBy (run-time values).",
		Assumptions: commonAssumptions, TrustedBase: commonTrusted}})
}

func runC01(c *Ctx) {
	c.U0()
	c.ruleR07a("R01a no-aliasing-in-alternative-lists", 3, func(e *own.Effect) bool {
		// only the list storage: elements of node slices and list variables
		return e.ElemOf != nil || (e.Owner == nil && e.LocType != nil)
	}, "combinator", "parser", "ast", "parsley", "data") // C01 quantifies over the combinator set; the trimming wrappers of package text are C10/C07
	c.ruleR01b("R01b curtailing-set-propagation")
	c.ruleR02c("R01c reset-only-after-progress", true)
	c.ruleR01d("R01d cache-reuse-condition", false)
	c.ruleCacheIdentity("R01d' cache-stores-what-it-returns")
	c.ruleR01e("R01e result-built-from-current-path")
	c.ruleR01f("R01f documented-length-rules")
	c.ruleR01g("R01g optional-keeps-the-empty-match")
	c.ruleR16b("R01h sep-by-alternation-and-length") // SepBy/SepBy1 'following their documented rules'
}

func isUnionCall(call *ssa.Call) bool {
	_, ok := isStaticMethod(call, "data", "IntSet", "Union")
	return ok
}

// ruleR01b: the curtailing set of each nested parse call flows into the curtailing set returned.
func (c *Ctx) ruleR01b(rule string) {
	c.R.Rule(rule, "for every nested parser call, every return of the enclosing parser reachable from it returns a curtailing set that depends on the call's curtailing set (through IntSet.Union, phis, and the sequence's accumulator field)", 12)
	memoFns := map[*ssa.Function]bool{}
	for _, m := range c.memos() {
		memoFns[m.Fn] = true
	}
	for _, fn := range c.S.Sorted(c.S.Parser) {
		if fn.Synthetic != "" {
			continue
		}
		for _, call := range ssax.Calls(fn) {
			cl, ok := call.(*ssa.Call)
			if !ok || !ssax.IsParseCall(cl) {
				continue
			}
			site := c.name(fn) + " call @" + c.P.InstrPos(cl)
			cps := ssax.Extracts(cl, 1)
			var srcs []ssa.Value
			for _, e := range cps {
				srcs = append(srcs, e)
			}
			fl := c.forward(srcs, func(k *ssa.Call, i int) bool { return isUnionCall(k) })
			// the returns that must carry it
			var targets []*ssa.Return
			var where *ssa.Function
			if ssax.IsParserSig(fn.Signature) {
				where = fn
				for _, r := range ssax.Returns(fn) {
					if r.Block() == cl.Block() || ssax.Reaches(cl.Block(), r.Block(), false) {
						targets = append(targets, r)
					}
				}
			} else {
				// helper of a parser (the sequence recursion): the enclosing parser-signature callers
				for _, g := range c.helperOwners(fn) {
					where = g
					for _, r := range ssax.Returns(g) {
						targets = append(targets, r)
					}
				}
				if where == nil {
					c.R.Undecided(rule, c.name(fn)+" nested call in unowned helper", c.name(fn), c.P.InstrPos(cl), "a parser is called from a helper that no parser-signature function of the library statically calls")
					continue
				}
			}
			bad := 0
			for _, r := range targets {
				if len(r.Results) != 3 {
					continue
				}
				if fl.Rets[retUse{r, 1}] || fl.Vals[r.Results[1]] {
					// may-flow holds; in the function containing the call it must hold on every path from the call
					if where == fn {
						src := map[ssa.Value]bool{}
						for _, e := range cps {
							src[e] = true
						}
						if !mustDepend(r.Results[1], src, cl.Block(), isUnionCall) {
							bad++
							c.R.Violation(rule, fmt.Sprintf("%s conditionally drops curtailing set", c.name(where)), c.name(where), c.P.InstrPos(r),
								fmt.Sprintf("on some path from the parser call at %s to the return at %s the returned curtailing set does not include the call's curtailing set (it is merged only conditionally)", c.P.InstrPos(cl), c.P.InstrPos(r)))
						}
					}
					continue
				}
				// tabled exemptions
				if ex := c.exemptR01b(where, r); ex != "" {
					c.R.Exempt(c.name(where)+" return @"+c.P.InstrPos(r), ex)
					continue
				}
				bad++
				c.R.Violation(rule, fmt.Sprintf("%s drops curtailing set of call in %s", c.name(where), c.name(fn)), c.name(where), c.P.InstrPos(r),
					fmt.Sprintf("the return at %s yields a curtailing set that does not depend on the curtailing set of the parser call at %s: a Memoize above stores this result as valid for more contexts than it is, and reuses it where deeper recursion was allowed (derivations are lost)", c.P.InstrPos(r), c.P.InstrPos(cl)))
			}
			// accumulation through a struct field: the store may be guarded by merge flags (bool parameters, whose
			// discipline R01c decides) and by nothing else
			for _, st := range fl.Stores {
				if st.Block().Parent() != fn {
					continue
				}
				for _, cd := range ssax.DominatingConds(st.Block()) {
					if cd.At.Dominates(cl.Block()) && cd.At != cl.Block() {
						continue // the condition also governs the call itself
					}
					if _, isParam := cd.Val.(*ssa.Parameter); isParam {
						continue
					}
					if ci, isI := cd.Val.(ssa.Instruction); isI && ci.Block() == cl.Block() && ssax.Before(ci, cl) {
						continue
					}
					bad++
					c.R.Violation(rule, fmt.Sprintf("%s merges curtailing set under a foreign condition", c.name(fn)), c.name(fn), c.P.InstrPos(st),
						fmt.Sprintf("the curtailing set of the parser call at %s is merged into the accumulator only under the condition %s, which is not a merge flag parameter: curtailing parsers of some sub-results are dropped, so cached results claim a smaller context than they depend on", c.P.InstrPos(cl), cd.Val.String()))
				}
			}
			if bad == 0 {
				c.R.Hold(rule, site, fmt.Sprintf("reaches result[1] of %d return(s) of %s on every path", len(targets), c.name(where)))
			}
		}
	}
}

// helperOwners: parser-signature functions from which fn is reachable through static calls to non-parser helpers.
func (c *Ctx) helperOwners(fn *ssa.Function) []*ssa.Function {
	seen := map[*ssa.Function]bool{}
	var out []*ssa.Function
	var walk func(f *ssa.Function)
	walk = func(f *ssa.Function) {
		if seen[f] {
			return
		}
		seen[f] = true
		for _, e := range c.P.Callers(f) {
			g := e.Caller.Func
			if !c.P.InLib(g) || e.Site == nil || e.Site.Common().StaticCallee() != f {
				continue
			}
			if ssax.IsParserSig(g.Signature) {
				dup := false
				for _, o := range out {
					if o == g {
						dup = true
					}
				}
				if !dup {
					out = append(out, g)
				}
				continue
			}
			walk(g)
		}
	}
	walk(fn)
	return out
}

// exemptR01b: returns that legitimately discard the whole sub-result.
func (c *Ctx) exemptR01b(fn *ssa.Function, r *ssa.Return) string {
	// (1) whitespace-error returns of the trimming wrappers: (nil, EmptyIntSet, wsErr) with wsErr from SkipWhitespaces
	if ssax.IsNilConst(ssax.Strip(r.Results[0])) {
		for _, l := range ssax.Leaves(r.Results[2]) {
			if dependsOnCallNamed(l, "SkipWhitespaces") {
				return "whitespace-error return: the whole sub-result is discarded and the parse fails with the mode's error (C10); outside C01's combinator set"
			}
		}
	}
	return ""
}

func dependsOnCallNamed(v ssa.Value, name string) bool {
	seen := map[ssa.Value]bool{}
	var walk func(ssa.Value) bool
	walk = func(x ssa.Value) bool {
		x = ssax.Strip(x)
		if seen[x] {
			return false
		}
		seen[x] = true
		switch y := x.(type) {
		case *ssa.Extract:
			// a result of a library helper: what the helper returns in that position
			if hc, ok := y.Tuple.(*ssa.Call); ok {
				if h := hc.Call.StaticCallee(); h != nil && !hc.Call.IsInvoke() && len(h.Blocks) > 0 && h.Name() != name {
					for _, r := range ssax.Returns(h) {
						if y.Index < len(r.Results) && walk(r.Results[y.Index]) {
							return true
						}
					}
				}
			}
			return walk(y.Tuple)
		case *ssa.Call:
			if sc := y.Call.StaticCallee(); sc != nil && sc.Name() == name {
				return true
			}
			if y.Call.IsInvoke() && y.Call.Method.Name() == name {
				return true
			}
		case *ssa.Phi:
			for _, e := range y.Edges {
				if walk(e) {
					return true
				}
			}
		case *ssa.UnOp:
			// load of a captured/local variable: follow the stores into it within the program
			if y.Op == token.MUL {
				if fa, ok := y.X.(*ssa.FieldAddr); ok {
					// a field of one of the library's own structs: whatever the library stores into it
					if fv := fieldVar(fa); fv != nil && !fv.Exported() {
						for _, sv := range libFieldStores[fv] {
							if walk(sv) {
								return true
							}
						}
					}
					return false
				}
				return walkStores(y.X, walk)
			}
		}
		return false
	}
	return walk(v)
}

// walkStores applies f to every value stored to addr (a local or captured variable) in its function and closures.
func walkStores(addr ssa.Value, f func(ssa.Value) bool) bool {
	var allocs []ssa.Value
	switch a := addr.(type) {
	case *ssa.Alloc:
		allocs = append(allocs, a)
	case *ssa.FreeVar:
		allocs = append(allocs, a)
	default:
		return false
	}
	for _, al := range allocs {
		refs := al.Referrers()
		if refs == nil {
			continue
		}
		for _, r := range *refs {
			switch x := r.(type) {
			case *ssa.Store:
				if x.Addr == al && f(x.Val) {
					return true
				}
			case *ssa.MakeClosure:
				// stores inside the closure through the corresponding free variable
				if fn, ok := x.Fn.(*ssa.Function); ok {
					for i, b := range x.Bindings {
						if b == al && i < len(fn.FreeVars) {
							if walkStores(fn.FreeVars[i], f) {
								return true
							}
						}
					}
				}
			}
		}
	}
	return false
}

// ruleR01d: reuse condition of the cache. strictPrune additionally demands that the stored context is pruned
// to the wrapped call's curtailing set on every path (needed for at-most-once, C03).
func (c *Ctx) ruleR01d(rule string, strictPrune bool) {
	c.R.Rule(rule, "the context stored with a cached result is the incoming context or its Filter by a set including the wrapped call's curtailing set; ResultCache.Get returns not-found only for a missing entry or when stored.Get(k) > current.Get(k) for a key k ranging over all stored keys", 3)
	n := 0
	for _, m := range c.memos() {
		if !c.S.Parser[m.Fn] || m.Wrapped == nil || m.Result == nil {
			continue
		}
		n++
		fn := c.name(m.Fn)
		L := ownParam(m.Fn, "data", "IntMap")
		vs := m.Stored["LeftRecCtx"]
		if len(vs) != 1 || L == nil {
			c.R.Violation(rule, fn+" stores Result.LeftRecCtx", fn, c.P.InstrPos(m.Save), fmt.Sprintf("Result.LeftRecCtx is stored %d times; expected once", len(vs)))
			continue
		}
		ok := true
		why := ""
		for _, l := range ssax.Leaves(vs[0]) {
			if l == L {
				if strictPrune {
					ok = false
					why = "the unpruned incoming context is stored on some path: the entry is then refused for callers with smaller counters although it does not depend on them, so the wrapped parser runs again at the same position"
				}
				continue
			}
			fc, isF := isStaticMethod(l, "data", "IntMap", "Filter")
			if !isF || len(fc.Call.Args) != 2 || m.Tr(fc.Call.Args[0]) != ssa.Value(L) {
				ok = false
				why = "the stored context is " + l.String() + ", neither the incoming context nor its Filter"
				continue
			}
			// the filter set must include the wrapped call's curtailing set
			inc := false
			for _, e := range ssax.Extracts(m.Wrapped, 1) {
				if dependsOn(m.Tr(fc.Call.Args[1]), e, isUnionCall) {
					inc = true
				}
			}
			if !inc {
				ok = false
				why = "the stored context is filtered by a set that does not include the wrapped call's curtailing parsers: counters the result depends on are forgotten, and the result is reused where deeper recursion was allowed"
			}
			if strictPrune && inc && !isExtractOf(m.Tr(fc.Call.Args[1]), m.Wrapped, 1) {
				ok = false
				why = "the stored context is filtered by a superset of the wrapped call's curtailing parsers; for at-most-once it has to be exactly that set"
			}
		}
		if ok {
			c.R.Hold(rule, fn+" Result.LeftRecCtx", "incoming context filtered by the wrapped call's curtailing set")
		} else {
			c.R.Violation(rule, fn+" stored context", fn, c.P.InstrPos(m.Save), why)
		}
	}
	if n == 0 {
		c.R.Fail("coverage-lost", rule, "memoizing parsers", "-", "-", "no memoizing parser found")
	}
	c.checkCacheGet(rule)
}

// sameIntMapValue: two IntMap-typed values are the same variable: identical, or loads of the same field of the same base.
func sameIntMapValue(a, b ssa.Value) bool {
	a, b = ssax.Strip(a), ssax.Strip(b)
	if a == b {
		return true
	}
	ba, fa, oka := fieldLoad(a)
	bb, fb, okb := fieldLoad(b)
	return oka && okb && fa == fb && ba == bb
}

// ruleR01e: the slice of nodes a sequence hands to its result handler holds exactly the elements of the current
// path: it is the scratch buffer bounded to the length whose validity was just tested (lenCheck(depth)), or nil.
func (c *Ctx) ruleR01e(rule string) {
	c.R.Rule(rule, "every HandleResult call gets nil or scratch[0:h] where h is the very length that the dominating length check accepted", 2)
	for _, fn := range c.S.Sorted(c.S.Parser) {
		if fn.Synthetic != "" {
			continue
		}
		for _, call := range ssax.Calls(fn) {
			cl, ok := call.(*ssa.Call)
			if !ok || !cl.Call.IsInvoke() || cl.Call.Method.Name() != "HandleResult" || len(cl.Call.Args) != 4 {
				continue
			}
			site := c.name(fn) + " HandleResult @" + c.P.InstrPos(cl)
			nodes := cl.Call.Args[2]
			if ssax.IsNilConst(nodes) {
				c.R.Hold(rule, site, "nil: the empty result")
				continue
			}
			sl, isSl := nodes.(*ssa.Slice)
			ok2 := false
			why := "the whole scratch buffer is passed instead of its first `depth` elements"
			if isSl && sl.High != nil {
				if sl.Low != nil {
					if k, isC := ssax.ConstInt(sl.Low); !isC || k != 0 {
						why = "the slice does not start at the first element of the path"
					}
				}
				// a dominating, accepted length check on the same length
				for _, cd := range ssax.DominatingConds(cl.Block()) {
					k, isCall := cd.Val.(*ssa.Call)
					if !isCall || !cd.Truth || k.Call.IsInvoke() || len(k.Call.Args) != 1 {
						continue
					}
					if sig, ok := k.Call.Value.Type().Underlying().(*types.Signature); !ok || sig.Params().Len() != 1 || sig.Results().Len() != 1 {
						continue
					}
					if k.Call.Args[0] == sl.High {
						ok2 = true
					}
				}
				if !ok2 {
					why = "the upper bound of the slice is not the length accepted by the dominating length check"
				}
			}
			if ok2 {
				c.R.Hold(rule, site, "scratch[0:h] with h accepted by the dominating length check")
			} else {
				c.R.Violation(rule, c.name(fn)+" result from stale elements", c.name(fn), c.P.InstrPos(cl), why+": elements left in the scratch buffer by a longer path explored earlier become children of this result, so a tree that is not a derivation is returned (and its end position is wrong)")
			}
		}
	}
}

// ruleR01f: the length predicates of the sequence constructors are the documented ones. Each predicate is a pure
// function of the length, the number of parsers l and (for Many) the allow-empty flag; it is folded over
// len in 0..l+2 for l in 0..4 and compared with the documented rule (SeqOf: all parsers; SeqTry: at least the first;
// SeqFirstOrAll: the first or all; Many: any length / at least one).
func (c *Ctx) ruleR01f(rule string) {
	c.R.Rule(rule, "lenCheck of SeqOf is len == l, of SeqTry 0 < len <= l, of SeqFirstOrAll len == 1 || len == l, of Many allowEmpty || len > 0 (folded over small l and len)", 4)
	type spec struct {
		ctor string
		want func(n, l int64, allow bool) bool
	}
	specs := []spec{
		{"combinator.SeqOf", func(n, l int64, _ bool) bool { return n == l }},
		{"combinator.SeqTry", func(n, l int64, _ bool) bool { return n > 0 && n <= l }},
		{"combinator.SeqFirstOrAll", func(n, l int64, _ bool) bool { return n == 1 || n == l }},
		{"combinator.Many", func(n, _ int64, allow bool) bool { return allow || n > 0 }},
	}
	for _, sp := range specs {
		fn := c.P.Func(sp.ctor)
		if fn == nil {
			c.R.Fail("coverage-lost", rule, sp.ctor, "-", "-", sp.ctor+" not found")
			continue
		}
		// the bool closure: in the constructor itself, else in a private constructor it delegates to (Many)
		findBool := func(f *ssa.Function) (*ssa.Function, *ssa.MakeClosure) {
			var lc *ssa.Function
			var mc *ssa.MakeClosure
			for _, b := range f.Blocks {
				for _, in := range b.Instrs {
					if m, ok := in.(*ssa.MakeClosure); ok {
						g := m.Fn.(*ssa.Function)
						if g.Signature.Results().Len() == 1 {
							if bt, ok := g.Signature.Results().At(0).Type().Underlying().(*types.Basic); ok && bt.Kind() == types.Bool {
								lc, mc = g, m
							}
						}
					}
				}
			}
			return lc, mc
		}
		lc, mc := findBool(fn)
		if lc == nil {
			for _, call := range ssax.Calls(fn) {
				if sc := call.Common().StaticCallee(); sc != nil && c.P.InLib(sc) && len(sc.Blocks) > 0 && sc.Parent() == nil {
					if l2, m2 := findBool(sc); l2 != nil {
						lc, mc = l2, m2
					}
				}
			}
		}
		if lc == nil {
			c.R.Undecided(rule, sp.ctor+" length predicate", sp.ctor, c.P.Pos(fn.Pos()), "no bool closure found in the constructor")
			continue
		}
		// captured variables: an int (l = len(parsers)) and/or a bool (allowEmpty)
		bad, undec := "", false
		for i, fv := range lc.FreeVars {
			pt, ok := fv.Type().Underlying().(*types.Pointer)
			if !ok {
				continue
			}
			if bt, ok := pt.Elem().Underlying().(*types.Basic); !ok || bt.Info()&types.IsInteger == 0 {
				continue
			}
			isLen, off, resolved := lenPlusConst(mc.Bindings[i], 0)
			switch {
			case resolved && isLen && off == 0:
				c.R.Hold(rule, sp.ctor+" captured count", "the count the predicate captures is len() of the constructor's parser list")
			case resolved:
				bad = fmt.Sprintf("the count captured by the length predicate is not the number of parsers (len%+d)", off)
			default:
				c.R.Exempt(sp.ctor+" captured count", "the captured count could not be resolved to len(parsers) structurally; the fold assumes it is the number of parsers")
			}
		}
		for l := int64(0); l <= 4 && bad == ""; l++ {
			for _, allow := range []bool{false, true} {
				for n := int64(0); n <= l+2; n++ {
					capt := benv{}
					for i, fv := range lc.FreeVars {
						_ = mc.Bindings[i]
						pt, ok := fv.Type().Underlying().(*types.Pointer)
						if !ok {
							continue
						}
						if bt, ok := pt.Elem().Underlying().(*types.Basic); ok {
							switch {
							case bt.Info()&types.IsInteger != 0:
								capt[fv] = bval{known: true, i: l}
							case bt.Kind() == types.Bool:
								capt[fv] = bval{known: true, isB: true, b: allow}
							}
						}
					}
					lv, fl := l, allow
					foldParserCount, foldBoolField = &lv, &fl
					got := foldFuncEnv(lc, []bval{{known: true, i: n}}, capt, 0)
					foldParserCount, foldBoolField = nil, nil
					if !got.known || !got.isB {
						undec = true
						continue
					}
					if got.b != sp.want(n, l, allow) {
						bad = fmt.Sprintf("with %d parsers (allowEmpty=%v) a result of %d elements is %s, the documented rule says %s", l, allow, n, accepted(got.b), accepted(sp.want(n, l, allow)))
					}
				}
			}
		}
		switch {
		case bad != "":
			c.R.Violation(rule, sp.ctor+" length rule", c.name(lc), c.P.Pos(lc.Pos()), sp.ctor+"'s length predicate differs from its documented rule: "+bad)
		case undec:
			c.R.Undecided(rule, sp.ctor+" length predicate not foldable", c.name(lc), c.P.Pos(lc.Pos()), "the length predicate is not a pure function of the length and the captured count/flag")
		default:
			c.R.Hold(rule, c.name(lc), "documented length rule (folded for l = 0..4)")
		}
	}
}

func accepted(b bool) string {
	if b {
		return "accepted"
	}
	return "rejected"
}

// lenPlusConst resolves v to len(<parameter>) + k through single-store locals, constant arithmetic and the results of
// library helpers. resolved=false when the shape is not recognised.
func lenPlusConst(v ssa.Value, depth int) (isLen bool, off int64, resolved bool) {
	if depth > 6 {
		return false, 0, false
	}
	switch x := v.(type) {
	case *ssa.Alloc:
		var stored ssa.Value
		if x.Referrers() == nil {
			return false, 0, false
		}
		for _, r := range *x.Referrers() {
			if st, ok := r.(*ssa.Store); ok && st.Addr == ssa.Value(x) {
				if stored != nil {
					return false, 0, false
				}
				stored = st.Val
			}
		}
		if stored == nil {
			return false, 0, false
		}
		return lenPlusConst(stored, depth+1)
	case *ssa.UnOp:
		if x.Op == token.MUL {
			return lenPlusConst(x.X, depth+1)
		}
	case *ssa.Call:
		if bi, ok := x.Call.Value.(*ssa.Builtin); ok && bi.Name() == "len" {
			a := x.Call.Args[0]
			for i := 0; i < 4; i++ {
				u, ok := a.(*ssa.UnOp)
				if !ok || u.Op != token.MUL {
					break
				}
				al, ok := u.X.(*ssa.Alloc)
				if !ok || al.Referrers() == nil {
					break
				}
				var stored ssa.Value
				n := 0
				for _, r := range *al.Referrers() {
					if st, ok := r.(*ssa.Store); ok && st.Addr == ssa.Value(al) {
						stored = st.Val
						n++
					}
				}
				if n != 1 {
					break
				}
				a = stored
			}
			if _, isP := a.(*ssa.Parameter); isP {
				return true, 0, true
			}
		}
	case *ssa.BinOp:
		if x.Op == token.ADD || x.Op == token.SUB {
			if k, ok := ssax.ConstInt(x.Y); ok {
				l, o, r := lenPlusConst(x.X, depth+1)
				if x.Op == token.SUB {
					k = -k
				}
				return l, o + k, r
			}
		}
	case *ssa.Extract:
		call, ok := x.Tuple.(*ssa.Call)
		if !ok {
			return false, 0, false
		}
		h := call.Call.StaticCallee()
		if h == nil || len(h.Blocks) == 0 {
			return false, 0, false
		}
		first := true
		for _, r := range ssax.Returns(h) {
			l, o, res := lenPlusConst(r.Results[x.Index], depth+1)
			if !res || !l {
				return false, 0, false
			}
			if !first && o != off {
				return false, 0, false
			}
			off, first = o, false
		}
		return true, off, !first
	}
	return false, 0, false
}
