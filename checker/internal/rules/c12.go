package rules

import (
	"fmt"
	"go/types"
	"sort"
	"strings"

	"golang.org/x/tools/go/ssa"

	"pv/internal/own"
	"pv/internal/ssax"

	"pv/internal/report"
	"pv/internal/shift"
)

func init() {
	register(&Property{ID: "C12", Run: runC12, Meta: report.Meta{ID: "C12",
		Explanation: "DECIDED (for all contents, grammars and placements at once, by a parametricity argument): translation-coefficient inference over every integer of the library — positions (parsley.Pos and the Pos-based node types) move by d when the file's base offset moves by d (coefficient 1); cursors, lengths, line/column numbers, counters do not (coefficient 0); +/- add coefficients, comparisons, phis, argument/parameter and field load/store pairs force equality, indexes/slice bounds/make sizes/multiplication/external arguments force 0. R12a: the constraint system is consistent, so two runs on the same content at base offsets o and o+d execute the same instructions with every value differing by coefficient*d: same trees and control flow, all positions shifted by d, line:column unchanged. R12b: no coefficient-1 value leaks into formatting, floats or foreign code except in the String() debug renderers. R12c: no offset-dependent value is cached outside File.offset / FileSet / nodes / errors (File.SetOffset may move the file after any such copy). NOT DECIDED: that a reader is used with positions of its own file; correctness of the line/column search (C11).",
		Assumptions: append([]string{"the hand-written parametricity argument of DESIGN.md §4 C12 connects consistency of the system to the invariance"}, commonAssumptions...), TrustedBase: commonTrusted}})
}

func runC12(c *Ctx) {
	c.U0()
	const ra, rb, rc = "R12a coefficient-system-consistent", "R12b no-leak", "R12c no-cached-offset"
	c.R.Rule(ra, "the translation-coefficient constraint system over all integer values of the library has a solution", 1)
	c.R.Rule(rb, "no placement-dependent value reaches formatting, float/string conversion or a call outside the library (debug renderers exempt)", 1)
	c.R.Rule(rc, "struct fields holding placement-dependent values exist only in File/FileSet and in node/error types", 1)
	res := shift.Analyze(c.P)
	nbad := map[string]int{}
	for _, f := range res.Findings {
		rule := ra
		switch f.Kind {
		case "leak":
			rule = rb
		case "cached":
			rule = rc
		}
		nbad[rule]++
		fn, pos := "-", "-"
		if f.Fn != nil {
			fn = c.name(f.Fn)
			pos = c.P.Pos(f.Fn.Pos())
		}
		if f.Instr != nil {
			pos = c.P.InstrPos(f.Instr)
		}
		c.R.Violation(rule, f.Key, fn, pos, f.Msg)
	}
	if nbad[ra] == 0 {
		c.R.Hold(ra, fmt.Sprintf("%d variables, %d constraints", res.NVars, res.NCons), fmt.Sprintf("consistent; %d coefficients determined", res.Known))
	}
	if nbad[rb] == 0 {
		c.R.Hold(rb, "boxing / conversion / external-argument sites", "no coefficient-1 value leaks")
	}
	if nbad[rc] == 0 {
		c.R.Hold(rc, "struct fields", "placement-dependent fields only in allowed holders")
	}
	// required derived facts: the engine must have seen the anchors it reasons about
	m := c.model()
	if !m.ok {
		c.R.Fail("coverage-lost", ra, "text model", "-", "-", "roles of the file fields not discovered: "+m.why)
		return
	}
	// the field SetOffset writes moves with the placement, the field Len() returns and the line table do not
	want := map[string]int{"text.File." + m.Offset: 1, "text.File." + m.Len: 0, "text.File." + m.Lines + "[]": 0}
	var wk []string
	for k := range want {
		wk = append(wk, k)
	}
	sort.Strings(wk)
	for _, k := range wk {
		got, ok := res.FieldCoef[k]
		switch {
		case !ok:
			c.R.Fail("coverage-lost", ra, "fact "+k, "-", "-", "the coefficient of "+k+" could not be derived: the anchor moved out of the recognised shapes, so consistency would be vacuous")
		case got != want[k]:
			c.R.Violation(ra, "fact "+k, "-", "-", fmt.Sprintf("derived coefficient of %s is %d, expected %d", k, got, want[k]))
		default:
			c.R.Hold(ra, "derived: "+k, fmt.Sprintf("coefficient %d", got))
		}
	}
	c.ruleSetOffsetUnconditional("R12d set-offset-takes-effect")
	c.ruleRenderPure("R12e rendering-is-history-free")
	for _, e := range res.Exempt {
		c.R.Exempt("tabled", e)
	}
	c.R.Extra["position_types"] = res.PosTypes
	c.R.Extra["field_coefficients"] = res.Facts
	c.R.Extra["undetermined_sample"] = res.Unknown
}

// ruleSetOffsetUnconditional: every implementation of parsley.File.SetOffset stores its argument on every path.
func (c *Ctx) ruleSetOffsetUnconditional(rule string) {
	c.R.Rule(rule, "File.SetOffset stores its argument into the offset field unconditionally", 1)
	fi := c.lookupIface("parsley", "File")
	for _, fn := range c.P.LibFuncs {
		if fn.Synthetic != "" || fn.Name() != "SetOffset" || fn.Signature.Recv() == nil || fi == nil || !types.Implements(fn.Signature.Recv().Type(), fi) || len(fn.Params) != 2 {
			continue
		}
		var st *ssa.Store
		for _, b := range fn.Blocks {
			for _, in := range b.Instrs {
				if s, ok := in.(*ssa.Store); ok && s.Val == ssa.Value(fn.Params[1]) {
					if _, isF := s.Addr.(*ssa.FieldAddr); isF {
						st = s
					}
				}
			}
		}
		ok := st != nil
		if ok {
			for _, r := range ssax.Returns(fn) {
				if !(st.Block() == r.Block() || st.Block().Dominates(r.Block())) {
					ok = false
				}
			}
		}
		if ok {
			c.R.Hold(rule, c.name(fn), "the offset is stored on every path")
		} else {
			c.R.Violation(rule, c.name(fn)+" conditional", c.name(fn), c.P.Pos(fn.Pos()), "SetOffset does not store the new base offset on every path: a file added to a (second) file set keeps emitting positions of its old placement, which the set cannot map back")
		}
	}
}

// ruleRenderPure: translating a position to file:line:column writes nothing but the lazily built line table, so
// the rendering of a position does not depend on which positions were rendered before.
func (c *Ctx) ruleRenderPure(rule string) {
	c.R.Rule(rule, "FileSet.Position / ErrorWithPosition / File.Position write no memory except the file's lazily built line table", 2)
	m := c.model()
	a := c.Own()
	for _, n := range []string{"(*parsley.FileSet).Position", "(*parsley.FileSet).ErrorWithPosition", "(*text.File).Position"} {
		fn := c.P.Func(n)
		if fn == nil {
			c.R.Fail("coverage-lost", rule, n, "-", "-", n+" not found")
			continue
		}
		bad := 0
		for _, e := range a.Info[fn].SortedEffects() {
			if e.Root.K == own.RFresh {
				continue
			}
			if m.ok && (e.Field == m.Lines || strings.HasSuffix(e.Path, "."+m.Lines+"[]") || strings.HasSuffix(e.Path, "."+m.Lines)) {
				continue // the line table, built once under lines == nil (W0)
			}
			bad++
			if bad > 2 {
				continue
			}
			c.R.Violation(rule, n+" writes "+e.Path, n, c.P.InstrPos(e.Instr), "rendering a position writes "+a.Describe(e)+": what a later position renders to then depends on the lookup history (and concurrent renderings race)")
		}
		if bad == 0 {
			c.R.Hold(rule, n, "no effect besides the line table")
		}
	}
}
