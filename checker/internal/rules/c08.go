package rules

import (
	"fmt"
	"go/constant"
	"go/token"
	"go/types"
	"strings"

	"golang.org/x/tools/go/ssa"

	"pv/internal/lin"
	"pv/internal/load"
	"pv/internal/report"
	"pv/internal/ssax"
)

func init() {
	register(&Property{ID: "C08", Run: runC08, Meta: report.Meta{ID: "C08",
		Explanation: "DECIDED (for all byte sequences and offsets at once): totality and the span/value plumbing of the literal parsers. R08a every explicit panic reachable from the terminal parsers and the reader primitives is guarded only by configuration (constructor arguments, constants) — outside the documented domain — or is one of Readf's two contract checks, which become obligations on the callback; R08b the error of every strconv/time conversion on matched bytes is tested and turned into a returned parsley.Error, never into a panic, and every node such a terminal builds takes its value from that conversion's result; R08c every function handed to Reader.Readf returns (nil, 0) or a position proven non-zero, within 0..len(input) (linear-facts engine), rejects invalid UTF-8 (RuneError with width 1, exactly that test) before strconv.UnquoteChar so that a raw byte cannot grow into U+FFFD, and appends decoded runes only as string(rune); R08d each terminal's node starts at the parser's own position, ends at the position returned by a Reader call, and errors carry the own position or a Reader-returned one; R08e every index/slice expression in package text/terminal is in bounds; R04c each terminal returns a node xor an error on every path. NOT DECIDED: that the value equals what strconv/time give for the LONGEST literal of the documented syntax (regular-expression semantics); the inequality len(value) <= consumed in unquoteString beyond the UTF-8 rule (recorded as an assumption).",
		Assumptions: append([]string{"A-domain: constructor arguments lie in their documented domains (non-empty ASCII words, valid regexps, valid group indexes)", "len(value) <= consumed in unquoteString holds for valid UTF-8 input because every escape is longer than the rune it denotes (not machine-checked)"}, commonAssumptions...), TrustedBase: commonTrusted}})
}

func runC08(c *Ctx) {
	c.U0()
	theModel = c.model()
	c.ruleR08a("R08a panic-inventory")
	c.ruleR08b("R08b conversion-errors-returned")
	c.ruleR08c("R08c readf-callback-contract")
	c.ruleR08d("R08d span-and-value-plumbing")
	c.ruleR09a("R08e terminal-and-reader-accesses-in-bounds", append(c.terminalFns(), c.readerFns()...), 20)
	c.ruleR04c("R04c leaf-contract")
	c.ruleW0("R08f input-not-overwritten (W0)")
}

// terminalFns: all functions of package text/terminal (closures included).
func (c *Ctx) terminalFns() []*ssa.Function {
	var out []*ssa.Function
	pk := c.P.Lib["text/terminal"]
	for _, fn := range c.P.LibFuncs {
		if fn.Synthetic != "" || pk == nil {
			continue
		}
		if tp := load.PkgOf(fn); tp == pk.Types {
			out = append(out, fn)
		}
	}
	return out
}

// terminalParsers: the parser closures of package text/terminal.
func (c *Ctx) terminalParsers() []*ssa.Function {
	var out []*ssa.Function
	for _, fn := range c.terminalFns() {
		if ssax.IsParserSig(fn.Signature) {
			out = append(out, fn)
		}
	}
	return out
}

// inputTainted: the value depends on the bytes of the input (not only on configuration).
func inputTainted(v ssa.Value, seen map[ssa.Value]bool) bool {
	if seen[v] {
		return false
	}
	seen[v] = true
	switch x := v.(type) {
	case *ssa.Const, *ssa.Parameter, *ssa.FreeVar, *ssa.Global, *ssa.Function, *ssa.Builtin:
		// parameters of reader primitives are positions/configuration; the input is reached through File.data
		return false
	case *ssa.UnOp:
		if x.Op == token.MUL {
			if _, f, ok := fieldLoad(x); ok {
				return f == theModel.Data // the file content
			}
			if ia, ok := x.X.(*ssa.IndexAddr); ok {
				return inputTainted(ia.X, seen)
			}
			if _, ok := x.X.(*ssa.FreeVar); ok {
				return false
			}
			if al, ok := x.X.(*ssa.Alloc); ok && al.Referrers() != nil {
				for _, r := range *al.Referrers() {
					if st, ok := r.(*ssa.Store); ok && st.Addr == al && inputTainted(st.Val, seen) {
						return true
					}
				}
				return false
			}
			return inputTainted(x.X, seen)
		}
		return inputTainted(x.X, seen)
	case *ssa.BinOp:
		return inputTainted(x.X, seen) || inputTainted(x.Y, seen)
	case *ssa.Phi:
		for _, e := range x.Edges {
			if inputTainted(e, seen) {
				return true
			}
		}
		return false
	case *ssa.Extract:
		return inputTainted(x.Tuple, seen)
	case *ssa.Slice:
		return inputTainted(x.X, seen)
	case *ssa.Convert:
		return inputTainted(x.X, seen)
	case *ssa.ChangeType:
		return inputTainted(x.X, seen)
	case *ssa.MakeInterface:
		return inputTainted(x.X, seen)
	case *ssa.TypeAssert:
		return inputTainted(x.X, seen)
	case *ssa.Lookup:
		return inputTainted(x.X, seen) || inputTainted(x.Index, seen)
	case *ssa.Index:
		return inputTainted(x.X, seen)
	case *ssa.IndexAddr:
		return inputTainted(x.X, seen)
	case *ssa.FieldAddr:
		return false
	case *ssa.Call:
		if b, ok := x.Call.Value.(*ssa.Builtin); ok {
			if b.Name() == "len" {
				// the number of submatches is a property of the pattern, not of the input
				if cl, ok := ssax.Strip(x.Call.Args[0]).(*ssa.Call); ok {
					n := ""
					if sc := cl.Call.StaticCallee(); sc != nil {
						n = sc.Name()
					}
					if n == "FindSubmatch" {
						return false
					}
				}
				if e, ok := ssax.Strip(x.Call.Args[0]).(*ssa.Extract); ok {
					if cl, ok := e.Tuple.(*ssa.Call); ok && cl.Call.StaticCallee() != nil && cl.Call.StaticCallee().Name() == "ReadRegexpSubmatch" && e.Index == 1 {
						return false
					}
				}
			}
			for _, a := range x.Call.Args {
				if inputTainted(a, seen) {
					return true
				}
			}
			return false
		}
		// methods of the reader that take a position read the input; so do dynamic callbacks fed with input
		if sc := x.Call.StaticCallee(); sc != nil && sc.Signature.Recv() != nil && ssax.PtrNamedIs(sc.Signature.Recv().Type(), "text", "Reader") {
			for _, p := range sc.Params {
				if ssax.NamedIs(p.Type(), "parsley", "Pos") {
					return true
				}
			}
			return false
		}
		for _, a := range x.Call.Args {
			if inputTainted(a, seen) {
				return true
			}
		}
		if x.Call.IsInvoke() {
			return inputTainted(x.Call.Value, seen)
		}
		return false
	}
	return true
}

func (c *Ctx) ruleR08a(rule string) {
	c.R.Rule(rule, "explicit panics and unchecked type assertions in the terminals and reader primitives: guard depends on configuration only, or it is one of Readf's contract checks", 8)
	var fns []*ssa.Function
	fns = append(fns, c.terminalFns()...)
	fns = append(fns, c.readerFns()...)
	for _, fn := range fns {
		name := c.name(fn)
		isReadf := fn.Name() == "Readf"
		for _, b := range fn.Blocks {
			for _, in := range b.Instrs {
				switch x := in.(type) {
				case *ssa.Panic:
					site := name + " panic @" + c.P.InstrPos(x)
					var tainted []string
					conds := ssax.DominatingConds(b)
					for _, cd := range conds {
						if _, isPhi := cd.Val.(*ssa.Phi); isPhi {
							continue // decomposed into its operands
						}
						// only the immediate guard decides: outer conditions merely make the site reachable
						nearest := true
						for _, o := range conds {
							if _, isPhi := o.Val.(*ssa.Phi); isPhi {
								continue
							}
							if o.At != cd.At && cd.At.Dominates(o.At) {
								nearest = false
							}
						}
						if nearest && inputTainted(cd.Val, map[ssa.Value]bool{}) {
							tainted = append(tainted, cd.Val.String())
						}
					}
					switch {
					case len(tainted) == 0:
						c.R.Hold(rule, site, "guard depends on configuration only (outside the documented domain)")
					case isReadf:
						c.R.Hold(rule, site, "Readf contract check: obligation on the callback (R08c)")
						c.R.Exempt("Readf contract panics", "the two checks of Reader.Readf on the callback's result are pinned by unit tests; every callback the library passes is proven to satisfy them (R08c)")
					default:
						c.R.Violation(rule, name+" panics on input", name, c.P.InstrPos(x), "an explicit panic is reachable under a condition that depends on the input bytes ("+strings.Join(tainted, "; ")+"): some byte sequence makes the literal parser panic instead of returning an error")
					}
				case *ssa.TypeAssert:
					if x.CommaOk {
						continue
					}
					site := name + " type assertion @" + c.P.InstrPos(x)
					if inputTainted(x.X, map[ssa.Value]bool{}) {
						c.R.Violation(rule, name+" asserts type of input-dependent value", name, c.P.InstrPos(x), "a non-comma-ok type assertion on a value that depends on the input")
					} else {
						c.R.Hold(rule, site, "asserts the reader's dynamic type: configuration")
					}
				}
			}
		}
	}
}

var theModel = &textModel{Data: "data", Offset: "offset"}

var conversionFns = map[string]bool{
	"strconv.ParseInt": true, "strconv.ParseUint": true, "strconv.ParseFloat": true, "strconv.Atoi": true, "strconv.ParseBool": true,
	"strconv.UnquoteChar": true, "strconv.Unquote": true, "time.ParseDuration": true, "time.Parse": true,
}

func extCallName(cl *ssa.Call) string {
	if sc := cl.Call.StaticCallee(); sc != nil && sc.Pkg != nil && sc.Signature.Recv() == nil {
		return sc.Pkg.Pkg.Path() + "." + sc.Name()
	}
	return ""
}

// convUse is a conversion as one terminal parser sees it: the call in the parser (the conversion itself, or a
// library helper wrapping it), the values carrying the converted result, and the test telling that it failed.
type convUse struct {
	call   *ssa.Call
	what   string
	vals   []ssa.Value
	failed func(cd ssax.Cond) bool // the condition's outcome puts the block on the failure side
	failIf func(cond ssa.Value) (onTrue bool, ok bool)
}

func errFailTests(errv ssa.Value) (func(ssax.Cond) bool, func(ssa.Value) (bool, bool)) {
	// the tested value is the error itself, or a variable that holds the error on every path on which the conversion ran
	// (`var err error; if ... { v, err = conv() }; if err != nil`): what it holds on paths that bypass the conversion does
	// not matter here (the value clause below looks at those), but `if c { err = nil }` after the conversion does
	var convBlock *ssa.BasicBlock
	if in, ok := errv.(ssa.Instruction); ok {
		convBlock = in.Block()
	}
	var isErr func(x ssa.Value, depth int) bool
	isErr = func(x ssa.Value, depth int) bool {
		x = ssax.Strip(x)
		if x == errv {
			return true
		}
		ph, ok := x.(*ssa.Phi)
		if !ok || convBlock == nil || depth > 4 {
			return false
		}
		has := false
		for k, e := range ph.Edges {
			if isErr(e, depth+1) {
				has = true
				continue
			}
			if pb := ph.Block().Preds[k]; ssax.Reaches(convBlock, pb, true) {
				return false // on a path through the conversion the variable holds something else
			}
		}
		return has
	}
	return func(cd ssax.Cond) bool {
			x, nilIfTrue, isNT := nilTest(cd.Val)
			return isNT && isErr(x, 0) && cd.Truth != nilIfTrue
		}, func(cond ssa.Value) (bool, bool) {
			x, nilIfTrue, isNT := nilTest(cond)
			if !isNT || !isErr(x, 0) {
				return false, false
			}
			return !nilIfTrue, true
		}
}

// convHelper verifies a library helper wrapping one conversion: (value..., ok bool) or (value..., err error). Its
// status result is true / nil only where the conversion's error is known nil, and the value result comes from the
// conversion. It returns the conversion's name, or "" with the reason.
func (c *Ctx) convHelper(h *ssa.Function) (string, string) {
	var convs []*ssa.Call
	for _, call := range ssax.Calls(h) {
		if cl, ok := call.(*ssa.Call); ok && conversionFns[extCallName(cl)] {
			convs = append(convs, cl)
		}
	}
	if len(convs) != 1 {
		return "", ""
	}
	cv := convs[0]
	res := h.Signature.Results()
	if res.Len() < 2 {
		return "", "the helper " + c.name(h) + " wraps " + extCallName(cv) + " but has no status result"
	}
	errEx := ssax.Extracts(cv, cv.Type().(*types.Tuple).Len()-1)
	if len(errEx) == 0 {
		return "", "the helper " + c.name(h) + " discards the error of " + extCallName(cv)
	}
	errv := ssa.Value(errEx[0])
	knownNil := func(b *ssa.BasicBlock) bool {
		for _, cd := range ssax.DominatingConds(b) {
			if x, nilIfTrue, isNT := nilTest(cd.Val); isNT && x == errv && cd.Truth == nilIfTrue {
				return true
			}
		}
		return false
	}
	last := res.At(res.Len() - 1).Type()
	isBool := false
	if bt, ok := last.Underlying().(*types.Basic); ok && bt.Kind() == types.Bool {
		isBool = true
	} else if !isErrorType(last) {
		return "", "the helper " + c.name(h) + " wraps " + extCallName(cv) + " but its last result is neither bool nor an error"
	}
	// v true => err == nil
	var implies func(v ssa.Value, at *ssa.BasicBlock, depth int) bool
	implies = func(v ssa.Value, at *ssa.BasicBlock, depth int) bool {
		if depth > 8 {
			return false
		}
		if knownNil(at) {
			return true
		}
		switch x := v.(type) {
		case *ssa.Const:
			return x.Value != nil && x.Value.Kind() == constant.Bool && !constant.BoolVal(x.Value)
		case *ssa.BinOp:
			y, nilIfTrue, isNT := nilTest(x)
			return isNT && y == errv && nilIfTrue
		case *ssa.UnOp:
			if x.Op == token.NOT {
				y, nilIfTrue, isNT := nilTest(x.X)
				return isNT && y == errv && !nilIfTrue
			}
		case *ssa.Phi:
			for i, e := range x.Edges {
				if !implies(e, x.Block().Preds[i], depth+1) {
					return false
				}
			}
			return true
		}
		return false
	}
	val0 := ssax.Extracts(cv, 0)
	for _, r := range ssax.Returns(h) {
		st := r.Results[len(r.Results)-1]
		if isBool {
			if !implies(st, r.Block(), 0) {
				return "", "the helper " + c.name(h) + " can report success at " + c.P.InstrPos(r) + " although " + extCallName(cv) + " failed"
			}
		} else {
			s := ssax.Strip(st)
			if s != errv && ssax.IsNilConst(s) && !knownNil(r.Block()) {
				return "", "the helper " + c.name(h) + " can return a nil error at " + c.P.InstrPos(r) + " although " + extCallName(cv) + " failed"
			}
			if s != errv && !ssax.IsNilConst(s) {
				if _, isCall := s.(*ssa.Call); !isCall {
					if _, isMI := s.(*ssa.MakeInterface); !isMI {
						return "", "the helper " + c.name(h) + " returns an error of unknown origin at " + c.P.InstrPos(r)
					}
				}
			}
		}
		// value plumbing
		rv := ssax.Strip(r.Results[0])
		if _, isConst := rv.(*ssa.Const); isConst {
			continue
		}
		dep := false
		for _, v0 := range val0 {
			if rv == ssa.Value(v0) || dependsOn(rv, v0, func(k *ssa.Call) bool { return false }) {
				dep = true
			}
			if cvt, ok := rv.(*ssa.Convert); ok && cvt.X == ssa.Value(v0) {
				dep = true
			}
		}
		if !dep {
			return "", "the helper " + c.name(h) + " returns at " + c.P.InstrPos(r) + " a value that does not come from " + extCallName(cv)
		}
	}
	return extCallName(cv), ""
}

func (c *Ctx) ruleR08b(rule string) {
	c.R.Rule(rule, "in every terminal parser the error of a strconv/time conversion is tested, its failure branch returns (nil, _, error) and never panics, and every node the terminal builds takes its value from the conversion's result", 4)
	for _, fn := range c.terminalParsers() {
		name := c.name(fn)
		var convs []convUse
		for _, call := range ssax.Calls(fn) {
			cl, ok := call.(*ssa.Call)
			if !ok {
				continue
			}
			if conversionFns[extCallName(cl)] {
				nres := cl.Type().(*types.Tuple).Len()
				errEx := ssax.Extracts(cl, nres-1)
				if len(errEx) == 0 {
					c.R.Violation(rule, name+" ignores conversion error", name, c.P.InstrPos(cl), "the error of "+extCallName(cl)+" is discarded: an out-of-range or malformed literal yields a node with a wrong value")
					continue
				}
				u := convUse{call: cl, what: extCallName(cl)}
				u.failed, u.failIf = errFailTests(errEx[0])
				for _, e := range ssax.Extracts(cl, 0) {
					u.vals = append(u.vals, e)
				}
				convs = append(convs, u)
				continue
			}
			// a library helper wrapping the conversion
			h := cl.Call.StaticCallee()
			if h == nil || cl.Call.IsInvoke() || !c.P.InLib(h) || len(h.Blocks) == 0 || ssax.IsParserSig(h.Signature) {
				continue
			}
			what, why := c.convHelper(h)
			if what == "" {
				if why != "" {
					c.R.Violation(rule, name+" conversion helper "+c.name(h), c.name(h), c.P.InstrPos(cl), why)
				}
				continue
			}
			tup, ok := cl.Type().(*types.Tuple)
			if !ok {
				continue
			}
			stEx := ssax.Extracts(cl, tup.Len()-1)
			if len(stEx) == 0 {
				c.R.Violation(rule, name+" ignores conversion error", name, c.P.InstrPos(cl), "the status result of "+c.name(h)+" (wrapping "+what+") is discarded: an out-of-range or malformed literal yields a node with a wrong value")
				continue
			}
			u := convUse{call: cl, what: what + " via " + c.name(h)}
			if isErrorType(tup.At(tup.Len() - 1).Type()) {
				u.failed, u.failIf = errFailTests(stEx[0])
			} else {
				st := ssa.Value(stEx[0])
				u.failed = func(cd ssax.Cond) bool { return cd.Val == st && !cd.Truth }
				u.failIf = func(cond ssa.Value) (bool, bool) {
					if cond == st {
						return false, true
					}
					if n, ok := cond.(*ssa.UnOp); ok && n.Op == token.NOT && n.X == st {
						return true, true
					}
					return false, false
				}
			}
			for _, e := range ssax.Extracts(cl, 0) {
				u.vals = append(u.vals, e)
			}
			convs = append(convs, u)
		}
		for _, u := range convs {
			cv := u.call
			site := name + " " + u.what + " @" + c.P.InstrPos(cv)
			// the failure branch
			okFail := false
			for _, b := range fn.Blocks {
				for _, cd := range ssax.DominatingConds(b) {
					if !u.failed(cd) {
						continue
					}
					if len(b.Instrs) > 0 {
						switch t := b.Instrs[len(b.Instrs)-1].(type) {
						case *ssa.Panic:
							c.R.Violation(rule, name+" panics on conversion error", name, c.P.InstrPos(t), u.what+" failing (e.g. an out-of-range number) makes the parser panic; its siblings return an 'invalid ... value' error")
						case *ssa.Return:
							if len(t.Results) == 3 && ssax.IsNilConst(ssax.Strip(t.Results[0])) && !ssax.IsNilConst(ssax.Strip(t.Results[2])) {
								okFail = true
							}
						}
					}
				}
			}
			// `tail != "" || err != nil` style: the failure return is reached through an || — accept a return of an
			// error in a block entered directly from the failing outcome of the test
			if !okFail {
				for _, r := range ssax.Returns(fn) {
					if len(r.Results) != 3 || !ssax.IsNilConst(ssax.Strip(r.Results[0])) || ssax.IsNilConst(ssax.Strip(r.Results[2])) {
						continue
					}
					for _, p := range r.Block().Preds {
						if ifi, ok := p.Instrs[len(p.Instrs)-1].(*ssa.If); ok {
							if onTrue, ok := u.failIf(ifi.Cond); ok {
								if onTrue && p.Succs[0] == r.Block() || !onTrue && p.Succs[1] == r.Block() {
									okFail = true
								}
							}
						}
					}
				}
			}
			if !okFail {
				c.R.Violation(rule, name+" conversion error not returned", name, c.P.InstrPos(cv), "no branch tests the error of "+u.what+" and returns (nil, _, error) on failure")
				continue
			}
			// value plumbing: every constructed node's value argument depends on the conversion's first result
			okVal := true
			for _, r := range ssax.Returns(fn) {
				if len(r.Results) != 3 || ssax.IsNilConst(ssax.Strip(r.Results[0])) {
					continue
				}
				ctor, ok := ssax.Strip(r.Results[0]).(*ssa.Call)
				if !ok {
					continue
				}
				dep := false
				for _, a := range ctor.Call.Args {
					for _, v0 := range u.vals {
						if dependsOn(a, v0, func(k *ssa.Call) bool { return false }) || ssax.Strip(a) == v0 {
							dep = true
						}
						if cvt, ok := a.(*ssa.Convert); ok && cvt.X == v0 {
							dep = true
						}
					}
					// ... on every path: a value merged from the conversion and from something else (a hand-written
					// fast path beside strconv) is decoded by the other source on some inputs
					av := ssax.Strip(a)
					if cvt, ok := av.(*ssa.Convert); ok {
						av = ssax.Strip(cvt.X)
					}
					if _, isPhi := av.(*ssa.Phi); isPhi {
						some, all := false, true
						for _, l := range ssax.Leaves(av) {
							fromConv := false
							for _, v0 := range u.vals {
								if l == ssa.Value(v0) || dependsOn(l, v0, func(k *ssa.Call) bool { return false }) {
									fromConv = true
								}
							}
							if fromConv {
								some = true
							} else {
								all = false
							}
						}
						if some && !all {
							okVal = false
							c.R.Violation(rule, name+" node value bypasses the conversion", name, c.P.InstrPos(r), "the value of the node built here comes from "+u.what+" on some paths and from another computation on others: on those paths the literal is decoded differently from Go's conversion")
						}
					}
				}
				if !dep {
					okVal = false
					c.R.Violation(rule, name+" node value bypasses the conversion", name, c.P.InstrPos(r), "a node is built whose value does not come from "+u.what+": on that path the literal is decoded differently from Go's conversion")
				}
			}
			if okVal {
				c.R.Hold(rule, site, "error tested and returned; node values come from the conversion")
			}
		}
	}
}

// readfCallbacks: functions passed to (*text.Reader).Readf in library code.
func (c *Ctx) readfCallbacks() []*ssa.Function {
	var out []*ssa.Function
	for _, fn := range c.P.LibFuncs {
		for _, call := range ssax.Calls(fn) {
			sc := call.Common().StaticCallee()
			if sc == nil || sc.Name() != "Readf" || sc.Signature.Recv() == nil || !ssax.PtrNamedIs(sc.Signature.Recv().Type(), "text", "Reader") {
				continue
			}
			for _, l := range ssax.Leaves(call.Common().Args[2]) {
				switch f := l.(type) {
				case *ssa.Function:
					out = append(out, f)
				case *ssa.MakeClosure:
					out = append(out, f.Fn.(*ssa.Function))
				}
			}
		}
	}
	return out
}

func (c *Ctx) ruleR08c(rule string) {
	c.R.Rule(rule, "every Readf callback returns (nil,0) or a position proven non-zero within 0..len(input); invalid UTF-8 is rejected (RuneError and width 1) before UnquoteChar; decoded runes are appended as string(rune)", 5)
	cbs := c.readfCallbacks()
	if len(cbs) == 0 {
		c.R.Fail("coverage-lost", rule, "Readf callbacks", "-", "-", "no function passed to Reader.Readf found")
		return
	}
	for _, fn := range cbs {
		lf := lin.New(fn, func(string) bool { return true })
		lf.Sub = func(g *ssa.Function) *lin.Fn { return c.linFn(g) }
		b := fn.Params[0]
		lf.Axioms = append(lf.Axioms, lin.Ge(lf.LenOf(b), lin.Const(1), "Readf calls the callback only with a non-empty remainder (cur < File.len)"))
		lf.Prepare()
		c.readfContract(rule, fn, lf, b, 0)
	}
}

// readfContract checks the returns of a Readf callback (or of a helper it hands its result over to) against the
// contract of Reader.Readf, and the UnquoteChar discipline inside it. b is the input slice as fn names it.
func (c *Ctx) readfContract(rule string, fn *ssa.Function, lf *lin.Fn, b *ssa.Parameter, depth int) {
	{
		name := c.name(fn)
		for _, r := range ssax.Returns(fn) {
			if len(r.Results) != 2 {
				continue
			}
			site := name + " return @" + c.P.InstrPos(r)
			// return h(b, i): the pair a library helper returns, judged inside the helper under the bounds that hold
			// for its arguments here
			e0, ok0 := r.Results[0].(*ssa.Extract)
			e1, ok1 := r.Results[1].(*ssa.Extract)
			if ok0 && ok1 && e0.Tuple == e1.Tuple && e0.Index == 0 && e1.Index == 1 && depth < 2 {
				if hc, ok := e0.Tuple.(*ssa.Call); ok {
					if h := hc.Call.StaticCallee(); h != nil && !hc.Call.IsInvoke() && c.P.InLib(h) && len(h.Blocks) > 0 {
						var hb *ssa.Parameter
						for i, a := range hc.Call.Args {
							if a == ssa.Value(b) && i < len(h.Params) {
								hb = h.Params[i]
							}
						}
						if hb != nil {
							lh := lin.New(h, func(string) bool { return true })
							lh.Sub = func(g *ssa.Function) *lin.Fn { return c.linFn(g) }
							lh.Axioms = append(lh.Axioms, lin.Ge(lh.LenOf(hb), lin.Const(1), "the input handed on by the Readf callback is non-empty"))
							for i, a := range hc.Call.Args {
								if i >= len(h.Params) {
									break
								}
								if bt, ok := a.Type().Underlying().(*types.Basic); !ok || bt.Info()&types.IsInteger == 0 {
									continue
								}
								na := lf.Norm(a)
								if lf.ProveAt(hc.Block(), lin.Ge(na, lin.Const(0), "")) {
									lh.Axioms = append(lh.Axioms, lin.Ge(lin.Atom(h.Params[i].Name()), lin.Const(0), "proven at the call in "+name+": "+h.Params[i].Name()+" >= 0"))
								}
								if lf.ProveAt(hc.Block(), lin.Ge(lf.LenOf(b), na, "")) {
									lh.Axioms = append(lh.Axioms, lin.Ge(lh.LenOf(hb), lin.Atom(h.Params[i].Name()), "proven at the call in "+name+": "+h.Params[i].Name()+" <= len(input)"))
								}
							}
							lh.Prepare()
							c.R.Hold(rule, site, "hands on the result of "+c.name(h)+" (judged there)")
							c.readfContract(rule, h, lh, hb, depth+1)
							continue
						}
					}
				}
			}
			v, n := ssax.Strip(r.Results[0]), r.Results[1]
			if k, isC := ssax.ConstInt(n); isC && k == 0 {
				if ssax.IsNilConst(v) {
					c.R.Hold(rule, site, "(nil, 0)")
				} else {
					c.R.Violation(rule, name+" value with zero length", name, c.P.InstrPos(r), "the callback returns a non-nil value together with position 0: Reader.Readf panics with 'no value should be returned if next position is zero'")
				}
				continue
			}
			facts := lf.FactsAt(r.Block())
			ne := lf.Norm(n)
			var fails []string
			if !lin.Prove(facts, lin.Cons{E: ne, Ne: true}) && !ssax.IsNilConst(v) {
				fails = append(fails, "position may be 0 while a value is returned (Readf panics: 'no value should be returned if next position is zero')")
			}
			if !lin.Prove(facts, lin.Ge(ne, lin.Const(0), "")) {
				fails = append(fails, "position may be negative")
			}
			if !lin.Prove(facts, lin.Ge(lf.LenOf(b), ne, "")) {
				fails = append(fails, "position may exceed the input handed to the callback (Readf panics: 'invalid length')")
			}
			// len(value) <= n where the value is a slice of the input
			if !ssax.IsNilConst(v) {
				lv := lf.LenOf(v)
				if !lin.Prove(facts, lin.Ge(ne, lv, "")) {
					if _, isPhi := v.(*ssa.Phi); isPhi {
						c.R.Exempt(name+" len(value) <= consumed for the unescaped buffer", "not linear: every escape is at least as long as the UTF-8 encoding of the rune it denotes; holds for valid UTF-8, which the rule below enforces")
					} else {
						fails = append(fails, "the value may be longer than the consumed input (Readf panics: 'invalid length')")
					}
				}
			}
			if len(fails) == 0 {
				c.R.Hold(rule, site, "position "+ne.String()+" proven non-zero and within the input")
			} else {
				c.R.Violation(rule, name+" breaks the Readf contract", name, c.P.InstrPos(r), strings.Join(fails, "; "))
			}
		}
		// UnquoteChar discipline
		for _, call := range ssax.Calls(fn) {
			cl, ok := call.(*ssa.Call)
			if !ok || extCallName(cl) != "strconv.UnquoteChar" {
				continue
			}
			site := name + " UnquoteChar @" + c.P.InstrPos(cl)
			// the rejecting test: a DecodeRune*(same string) whose (r == RuneError) and (size == 1) both dominate a block
			// from which the UnquoteChar call is not reachable, and whose negations both lead to the call
			okGuard := false
			why := "no utf8.DecodeRune* test on the same input precedes the call"
			for _, k2 := range ssax.Calls(fn) {
				dc, ok := k2.(*ssa.Call)
				if !ok {
					continue
				}
				dn := extCallName(dc)
				if dn != "unicode/utf8.DecodeRuneInString" && dn != "unicode/utf8.DecodeRune" {
					continue
				}
				if dc.Call.Args[0] != cl.Call.Args[0] || !ssax.Before(dc, cl) && !dc.Block().Dominates(cl.Block()) {
					continue
				}
				rEx, wEx := ssax.Extracts(dc, 0), ssax.Extracts(dc, 1)
				isTest := func(cond ssa.Value, exs []*ssa.Extract, k int64) bool {
					op, x, y, isCmp := ssax.CmpOp(cond)
					if !isCmp || op != token.EQL {
						return false
					}
					kk, isK := ssax.ConstInt(y)
					if !isK || kk != k {
						return false
					}
					for _, e := range exs {
						if x == ssa.Value(e) {
							return true
						}
					}
					return false
				}
				for _, bb := range fn.Blocks {
					if len(bb.Instrs) == 0 {
						continue
					}
					ifi, ok := bb.Instrs[len(bb.Instrs)-1].(*ssa.If)
					if !ok {
						continue
					}
					second := ""
					switch {
					case isTest(ifi.Cond, wEx, 1):
						second = "w"
					case isTest(ifi.Cond, rEx, 0xFFFD):
						second = "r"
					default:
						continue
					}
					// the reject edge leaves the decoding loop; the other edge goes on to UnquoteChar
					if ssax.Reaches(bb.Succs[0], cl.Block(), true) || !ssax.Reaches(bb.Succs[1], cl.Block(), true) {
						continue
					}
					first := false
					for _, cd := range ssax.DominatingConds(bb) {
						if !cd.Truth {
							continue
						}
						if second == "w" && isTest(cd.Val, rEx, 0xFFFD) || second == "r" && isTest(cd.Val, wEx, 1) {
							first = true
						}
					}
					if first {
						okGuard = true
					} else if second == "r" {
						why = "the rejection tests only r == utf8.RuneError without width == 1: a literal U+FFFD in valid UTF-8 is rejected as well"
					}
				}
			}
			if okGuard {
				c.R.Hold(rule, site, "dominated by the rejection of (RuneError, width 1) on the same input")
			} else {
				c.R.Violation(rule, name+" decodes without the invalid-UTF-8 test", name, c.P.InstrPos(cl), why+": strconv.UnquoteChar turns one raw invalid byte into the three-byte U+FFFD, so the value outgrows the consumed input and Reader.Readf panics — or valid input is refused")
			}
			// the decoded rune is appended as its UTF-8 encoding
			for _, re := range ssax.Extracts(cl, 0) {
				if re.Referrers() == nil {
					continue
				}
				for _, u := range *re.Referrers() {
					switch x := u.(type) {
					case *ssa.Convert:
						if bt, ok := x.Type().Underlying().(*types.Basic); ok && bt.Info()&types.IsString != 0 {
							c.R.Hold(rule, name+" rune use @"+c.P.InstrPos(x), "string(rune): the code point's UTF-8 encoding")
						} else {
							c.R.Violation(rule, name+" truncates decoded rune", name, c.P.InstrPos(x), "the rune decoded by strconv.UnquoteChar is converted to "+c.short(x.Type())+" instead of being appended as string(rune): escapes such as \\xe9 then denote a raw byte, not a code point")
						}
					case *ssa.DebugRef:
					case *ssa.Call:
						if n := extCallName(x); n == "unicode/utf8.AppendRune" || n == "unicode/utf8.EncodeRune" {
							c.R.Hold(rule, name+" rune use @"+c.P.InstrPos(x), n)
						}
					}
				}
			}
		}
	}
}

func (c *Ctx) ruleR08d(rule string) {
	c.R.Rule(rule, "every node a terminal builds starts at the parser's own position and ends at a position returned by a Reader call", 13)
	for _, fn := range c.terminalParsers() {
		name := c.name(fn)
		P := ownParam(fn, "parsley", "Pos")
		for _, r := range ssax.Returns(fn) {
			if len(r.Results) != 3 || ssax.IsNilConst(ssax.Strip(r.Results[0])) {
				continue
			}
			if helperReturnsNilFirst(c, r.Results[0]) {
				continue // the result of a no-match helper: no node
			}
			node0 := c.throughPassingHelper(r.Results[0])
			ctor, ok := ssax.Strip(node0).(*ssa.Call)
			if !ok || ctor.Call.StaticCallee() == nil {
				c.R.Undecided(rule, name+" node shape", name, c.P.InstrPos(r), "returned node is not a constructor call")
				continue
			}
			site := name + " -> " + ctor.Call.StaticCallee().Name() + " @" + c.P.InstrPos(r)
			// the two position arguments, in order: pos, readerPos
			var posArgs []ssa.Value
			for _, a := range ctor.Call.Args {
				if ssax.NamedIs(a.Type(), "parsley", "Pos") {
					posArgs = append(posArgs, a)
				}
			}
			if len(posArgs) != 2 {
				c.R.Undecided(rule, name+" constructor positions", name, c.P.InstrPos(r), "constructor does not take exactly (pos, readerPos)")
				continue
			}
			okStart := posArgs[0] == ssa.Value(P)
			okEnd := true
			for _, l := range ssax.Leaves(posArgs[1]) {
				if !c.endFromReader(l, 0) {
					okEnd = false
				}
			}
			switch {
			case !okStart:
				c.R.Violation(rule, name+" node start", name, c.P.InstrPos(r), "the node does not start at the parser's own position parameter")
			case !okEnd:
				c.R.Violation(rule, name+" node end", name, c.P.InstrPos(r), "the node's end is not a position returned by a Reader primitive (e.g. the start position is passed as the end): the node does not end right after the literal")
			default:
				c.R.Hold(rule, site, "(own pos, reader-returned end)")
			}
		}
	}
}

var _ = fmt.Sprintf

// helperReturnsNilFirst: v is result #0 of a library helper all of whose returns have a nil first result.
func helperReturnsNilFirst(c *Ctx, v ssa.Value) bool {
	e, ok := v.(*ssa.Extract)
	if !ok || e.Index != 0 {
		return false
	}
	cl, ok := e.Tuple.(*ssa.Call)
	if !ok {
		return false
	}
	h := cl.Call.StaticCallee()
	if h == nil || cl.Call.IsInvoke() || !c.P.InLib(h) || len(h.Blocks) == 0 {
		return false
	}
	rets := ssax.Returns(h)
	for _, r := range rets {
		if len(r.Results) == 0 || !ssax.IsNilConst(ssax.Strip(r.Results[0])) {
			return false
		}
	}
	return len(rets) > 0
}

// throughPassingHelper: v is result #i of a library helper that returns one of its parameters in that position on
// every path (matched(node) = (node, EmptyIntSet, nil)): the argument handed in.
func (c *Ctx) throughPassingHelper(v ssa.Value) ssa.Value {
	for depth := 0; depth < 3; depth++ {
		e, ok := v.(*ssa.Extract)
		if !ok {
			return v
		}
		cl, ok := e.Tuple.(*ssa.Call)
		if !ok {
			return v
		}
		h := cl.Call.StaticCallee()
		if h == nil || cl.Call.IsInvoke() || !c.P.InLib(h) || len(h.Blocks) == 0 {
			return v
		}
		k := -1
		for _, r := range ssax.Returns(h) {
			if e.Index >= len(r.Results) {
				return v
			}
			p, isP := ssax.Strip(r.Results[e.Index]).(*ssa.Parameter)
			if !isP {
				return v
			}
			idx := -1
			for i, hp := range h.Params {
				if hp == p {
					idx = i
				}
			}
			if idx < 0 || k >= 0 && k != idx {
				return v
			}
			k = idx
		}
		if k < 0 || k >= len(cl.Call.Args) {
			return v
		}
		v = cl.Call.Args[k]
	}
	return v
}

// endFromReader: the position is result #0 of a Reader primitive — directly, or handed back by a library helper whose
// every return either yields such a position or is a no-match return (a constant false result beside it).
func (c *Ctx) endFromReader(v ssa.Value, depth int) bool {
	e, ok := v.(*ssa.Extract)
	if !ok || depth > 2 {
		return false
	}
	cl, ok := e.Tuple.(*ssa.Call)
	if !ok {
		return false
	}
	sc := cl.Call.StaticCallee()
	if sc == nil {
		return false
	}
	if sc.Signature.Recv() != nil && ssax.PtrNamedIs(sc.Signature.Recv().Type(), "text", "Reader") {
		if e.Index == 0 && token.IsExported(sc.Name()) {
			return true
		}
	}
	if cl.Call.IsInvoke() || !c.P.InLib(sc) || len(sc.Blocks) == 0 {
		return false
	}
	for _, r := range ssax.Returns(sc) {
		if e.Index >= len(r.Results) {
			return false
		}
		noMatch := false
		for _, rv := range r.Results {
			if k, isB := ssax.ConstBool(rv); isB && !k {
				noMatch = true
			}
			if ssax.IsNilConst(ssax.Strip(rv)) {
				if _, isSl := rv.Type().Underlying().(*types.Slice); isSl {
					noMatch = true
				}
			}
		}
		if noMatch {
			continue
		}
		for _, l := range ssax.Leaves(r.Results[e.Index]) {
			if !c.endFromReader(l, depth+1) {
				return false
			}
		}
	}
	return true
}
