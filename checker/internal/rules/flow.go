package rules

import (
	"go/token"
	"go/types"

	"golang.org/x/tools/go/ssa"

	"pv/internal/ssax"
)

// retUse is a position in a Return instruction reached by a flow.
type retUse struct {
	Ret *ssa.Return
	Idx int
}

// flowResult is the forward closure of a value.
type flowResult struct {
	Vals    map[ssa.Value]bool
	Rets    map[retUse]bool
	CallArg map[*ssa.Call][]int // calls receiving a flowed value, with the argument positions
	Fields  map[*types.Var]bool // struct fields the value was stored into
	Stores  []*ssa.Store        // the field stores performed
}

// fieldVar returns the field object addressed by a FieldAddr.
func fieldVar(fa *ssa.FieldAddr) *types.Var {
	st, ok := fa.X.Type().Underlying().(*types.Pointer).Elem().Underlying().(*types.Struct)
	if !ok {
		return nil
	}
	return st.Field(fa.Field)
}

// fieldLoads indexes every load of a struct field in library code (field-based memory model).
func (c *Ctx) fieldLoads() map[*types.Var][]ssa.Value {
	if c.floads != nil {
		return c.floads
	}
	m := map[*types.Var][]ssa.Value{}
	for _, fn := range c.P.LibFuncs {
		for _, b := range fn.Blocks {
			for _, in := range b.Instrs {
				switch x := in.(type) {
				case *ssa.UnOp:
					if x.Op == token.MUL {
						if fa, ok := x.X.(*ssa.FieldAddr); ok {
							if fv := fieldVar(fa); fv != nil {
								m[fv] = append(m[fv], x)
							}
						}
					}
				case *ssa.Field:
					if st, ok := x.X.Type().Underlying().(*types.Struct); ok {
						m[st.Field(x.Field)] = append(m[st.Field(x.Field)], x)
					}
				}
			}
		}
	}
	c.floads = m
	return m
}

// forward computes what a value may flow into: through phis, value-preserving conversions, the calls accepted
// by `through` (the call result then carries the flow), struct fields (field-based: a store to field f reaches
// every load of f in the library) and local variables.
func (c *Ctx) forward(srcs []ssa.Value, through func(call *ssa.Call, argIdx int) bool) *flowResult {
	res := &flowResult{Vals: map[ssa.Value]bool{}, Rets: map[retUse]bool{}, CallArg: map[*ssa.Call][]int{}, Fields: map[*types.Var]bool{}}
	// hp: the value was reached by entering a library helper through one of its parameters; inside such a helper a
	// store into an object the helper itself allocates (a constructor filling its struct) is not an accumulation
	type item struct {
		v  ssa.Value
		hp bool
	}
	var work []item
	for _, s := range srcs {
		work = append(work, item{s, false})
	}
	seenHP := map[ssa.Value]bool{}
	for len(work) > 0 {
		it := work[len(work)-1]
		work = work[:len(work)-1]
		v := it.v
		if v == nil {
			continue
		}
		if it.hp {
			if seenHP[v] || res.Vals[v] {
				continue
			}
			seenHP[v] = true
		} else {
			if res.Vals[v] {
				continue
			}
		}
		res.Vals[v] = true
		refs := v.Referrers()
		if refs == nil {
			continue
		}
		push := func(x ssa.Value) { work = append(work, item{x, it.hp}) }
		for _, r := range *refs {
			switch x := r.(type) {
			case *ssa.Phi:
				push(x)
			case *ssa.ChangeType:
				push(x)
			case *ssa.MakeInterface:
				push(x)
			case *ssa.ChangeInterface:
				push(x)
			case *ssa.TypeAssert:
				push(x)
			case *ssa.Extract:
				push(x)
			case *ssa.Call:
				for i, a := range x.Call.Args {
					if a == v {
						res.CallArg[x] = append(res.CallArg[x], i)
						if through != nil && through(x, i) {
							push(x)
						}
						// into a library helper: the value continues as the helper's parameter
						if h := x.Call.StaticCallee(); h != nil && !x.Call.IsInvoke() && c.P.InLib(h) && len(h.Blocks) > 0 && !ssax.IsParserSig(h.Signature) && i < len(h.Params) {
							work = append(work, item{h.Params[i], true})
						}
					}
				}
				if x.Call.IsInvoke() && x.Call.Value == v {
					res.CallArg[x] = append(res.CallArg[x], -1)
					if through != nil && through(x, -1) {
						push(x)
					}
				}
			case *ssa.Store:
				if x.Val != v {
					continue
				}
				switch a := x.Addr.(type) {
				case *ssa.FieldAddr:
					if _, fresh := a.X.(*ssa.Alloc); fresh && it.hp {
						continue
					}
					if fv := fieldVar(a); fv != nil {
						res.Fields[fv] = true
						res.Stores = append(res.Stores, x)
						for _, l := range c.fieldLoads()[fv] {
							work = append(work, item{l, false})
						}
					}
				case *ssa.Alloc:
					if a.Referrers() != nil {
						for _, rr := range *a.Referrers() {
							if u, ok := rr.(*ssa.UnOp); ok && u.Op == token.MUL {
								push(u)
							}
						}
					}
				case *ssa.FreeVar:
					// a captured variable: loads in the same function and in the creator are not followed
				}
			case *ssa.Return:
				if it.hp {
					continue // what a helper returns reaches the caller only through the calls accepted by `through`
				}
				for i, rv := range x.Results {
					if rv == v {
						res.Rets[retUse{x, i}] = true
						// out of a library helper: the value continues as the corresponding result at every static call
						if g := x.Parent(); g != nil && !ssax.IsParserSig(g.Signature) && c.P.InLib(g) {
							for _, e := range c.P.Callers(g) {
								site, ok := e.Site.(*ssa.Call)
								if !ok || site.Call.StaticCallee() != g {
									continue
								}
								if len(x.Results) == 1 {
									push(site)
								} else {
									for _, ex := range ssax.Extracts(site, i) {
										push(ex)
									}
								}
							}
						}
					}
				}
			}
		}
	}
	return res
}

// dependsOn reports whether v (backward, through phis and value-preserving wrappers and the accepted calls)
// may be computed from target.
func dependsOn(v, target ssa.Value, through func(call *ssa.Call) bool) bool {
	seen := map[ssa.Value]bool{}
	var walk func(ssa.Value) bool
	walk = func(x ssa.Value) bool {
		x = ssax.Strip(x)
		if x == target {
			return true
		}
		if seen[x] {
			return false
		}
		seen[x] = true
		switch y := x.(type) {
		case *ssa.Phi:
			for _, e := range y.Edges {
				if walk(e) {
					return true
				}
			}
		case *ssa.Call:
			if through != nil && through(y) {
				for _, a := range y.Call.Args {
					if walk(a) {
						return true
					}
				}
				if y.Call.IsInvoke() && walk(y.Call.Value) {
					return true
				}
			}
		case *ssa.Extract:
			return walk(y.Tuple)
		case *ssa.TypeAssert:
			return walk(y.X)
		}
		return false
	}
	return walk(v)
}

// mustDepend reports whether v is computed from src on every path that comes from src's definition:
// phi edges whose predecessor is not reachable from `from` are initial values and are ignored.
func mustDepend(v ssa.Value, srcs map[ssa.Value]bool, from *ssa.BasicBlock, through func(*ssa.Call) bool) bool {
	state := map[ssa.Value]int{} // 1 = in progress (assume true), 2 = true, 3 = false
	var walk func(ssa.Value) bool
	walk = func(x ssa.Value) bool {
		x = ssax.Strip(x)
		if srcs[x] {
			return true
		}
		switch state[x] {
		case 1, 2:
			return true
		case 3:
			return false
		}
		state[x] = 1
		ok := false
		switch y := x.(type) {
		case *ssa.Phi:
			ok = true
			n := 0
			for i, e := range y.Edges {
				pred := y.Block().Preds[i]
				if pred != from && !ssax.Reaches(from, pred, false) {
					continue
				}
				n++
				if !walk(e) {
					ok = false
				}
			}
			if n == 0 {
				ok = false
			}
		case *ssa.Call:
			if through != nil && through(y) {
				for _, a := range y.Call.Args {
					if walk(a) {
						ok = true
					}
				}
			}
		}
		if ok {
			state[x] = 2
		} else {
			state[x] = 3
		}
		return ok
	}
	return walk(v)
}
