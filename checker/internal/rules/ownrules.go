package rules

import (
	"fmt"
	"go/token"
	"go/types"
	"sort"
	"strings"

	"golang.org/x/tools/go/ssa"

	"pv/internal/load"
	"pv/internal/own"
	"pv/internal/report"
	"pv/internal/ssax"
)

// mutators: the designated in-place mutators (DESIGN §2.2-A2). They are transparent: their parameter
// effects are judged at their callers, which must pass storage allocated in the same activation.
func (c *Ctx) isMutator(fn *ssa.Function) (bool, string) {
	name := c.name(fn)
	switch name {
	case "ast.SetReaderPos":
		return true, "documented purpose: applies f to the node's reader position in place"
	case "(*ast.NodeList).Append":
		return true, "pointer receiver: rebinding the caller's list variable is its purpose; the write into the array is still tracked at callers"
	}
	if fn.Signature.Recv() != nil && fn.Name() == "SetReaderPos" {
		if rps := c.lookupIface("ast", "ReaderPosSetter"); rps != nil && types.Implements(fn.Signature.Recv().Type(), rps) {
			return true, "implements ast.ReaderPosSetter: mutation is its documented purpose"
		}
	}
	return false, ""
}

// protC07 reports whether the effect writes storage protected by C07 and describes it.
func (c *Ctx) protC07(e *own.Effect, nodes map[*types.TypeName]bool) (bool, string) {
	if e.Owner != nil {
		if nodes[e.Owner.Obj()] {
			return true, "field " + e.Owner.Obj().Name() + "." + e.Field
		}
		if ssax.NamedIs(e.Owner, "parsley", "Result") {
			return true, "field Result." + e.Field
		}
	}
	if e.ElemOf != nil && c.isNodeSlice(e.ElemOf) {
		return true, "element of " + c.short(e.ElemOf)
	}
	if e.LocType != nil && e.Owner == nil && e.ElemOf == nil {
		// whole-value store (e.g. *nl = ...) of a node list or of a node struct
		if c.isNodeSlice(e.LocType) {
			return true, "list variable " + c.short(e.LocType)
		}
		if n, ok := types.Unalias(e.LocType).(*types.Named); ok && nodes[n.Obj()] {
			return true, "whole " + n.Obj().Name()
		}
	}
	return false, ""
}

func effectKey(c *Ctx, fn *ssa.Function, e *own.Effect, what string) string {
	hop := e.Via + " " + what
	if len(e.Chain) > 0 {
		h := e.Chain[0]
		if i := strings.Index(h, " @"); i >= 0 {
			h = h[:i]
		}
		hop = "-> " + h
	}
	root := e.Root.K.String()
	if e.Root.K == own.RParam || e.Root.K == own.RFreeVar || e.Root.K == own.RGlobal {
		root += "(" + e.Root.Obj + ")"
	}
	return fmt.Sprintf("%s %s (%s)", c.name(fn), hop, root)
}

type grouped struct {
	key     string
	fn      *ssa.Function
	first   *own.Effect
	n       int
	details []string
	what    string
}

// groupEffects merges effects that differ only in the concrete node type or depth below one call edge.
func groupEffects(c *Ctx, fn *ssa.Function, es []*own.Effect, whats []string) []*grouped {
	m := map[string]*grouped{}
	var order []string
	for i, e := range es {
		k := effectKey(c, fn, e, whats[i])
		g, ok := m[k]
		if !ok {
			g = &grouped{key: k, fn: fn, first: e, what: whats[i]}
			m[k] = g
			order = append(order, k)
		}
		g.n++
		if len(g.details) < 6 {
			g.details = append(g.details, c.Own().Describe(e))
		}
	}
	sort.Strings(order)
	var out []*grouped
	for _, k := range order {
		out = append(out, m[k])
	}
	return out
}

// judgeWrites applies the write-only-fresh rule to the effects of fn selected by `prot`.
// boundaryParam decides what a parameter-rooted write means in fn.
func (c *Ctx) judgeWrites(rule string, fn *ssa.Function, prot func(*own.Effect) (bool, string)) (fresh int) {
	fi := c.Own().Info[fn]
	if fi == nil {
		return 0
	}
	var bad []*own.Effect
	var whats []string
	var msgs = map[*own.Effect]string{}
	isMut, mutWhy := c.isMutator(fn)
	internal := c.S.Internal(fn)
	for _, e := range fi.SortedEffects() {
		ok, what := prot(e)
		if !ok {
			continue
		}
		switch e.Root.K {
		case own.RFresh:
			fresh++
			c.R.Hold(rule, c.name(fn)+" @"+c.P.InstrPos(e.Instr), e.Via+" to "+what+" of storage allocated in this activation: "+e.Loc())
		case own.RParam:
			switch {
			case isMut:
				c.R.Exempt("designated mutator "+c.name(fn), mutWhy)
				c.R.Examined(1)
			case internal:
				c.R.Examined(1) // judged at the callers, which are all static library call sites
			default:
				bad = append(bad, e)
				whats = append(whats, what)
				msgs[e] = fmt.Sprintf("%s writes %s reachable from its own parameter %q (%s): storage it did not allocate, which a caller or the result cache may still hold", c.name(fn), what, e.Root.Obj, e.Loc())
			}
		case own.RFreeVar:
			if fn.Parent() != nil && !c.S.Escapes(fn) {
				c.R.Examined(1) // attributed to the creating activation by the engine
				continue
			}
			bad = append(bad, e)
			whats = append(whats, what)
			msgs[e] = fmt.Sprintf("%s writes %s through captured variable %q, which is shared by every invocation of the closure", c.name(fn), what, e.Root.Obj)
		default:
			bad = append(bad, e)
			whats = append(whats, what)
			msgs[e] = fmt.Sprintf("%s writes %s of storage it did not allocate: %s", c.name(fn), what, e.Loc())
		}
	}
	for _, g := range groupEffects(c, fn, bad, whats) {
		detail := append([]string{fmt.Sprintf("%d write(s) below this edge; first: ", g.n)}, g.details...)
		c.R.Violation(rule, g.key, c.name(fn), c.P.InstrPos(g.first.Instr), msgs[g.first], detail...)
	}
	return fresh
}

// ---------------------------------------------------------------------------
// C15

func init() {
	register(&Property{ID: "C15", Run: runC15, Meta: report.Meta{ID: "C15",
		Explanation: "DECIDED (for all operation histories at once): no exported operation of package data writes memory reachable from its receiver or arguments, every write in the package goes to storage allocated in the same activation (R15a); no exported operation hands out a raw slice/map that aliases internal storage (R15b); nothing in the library writes through the shared EmptyIntSet/EmptyIntMap (R15c). This is the 'never mutated in place' half of the property and a necessary condition of it. R15d (value half, one structural clause): no map entry in package data is written under a condition on a value read from a map — clone/Inc/Filter decide by key membership only, as a plain map model does; R15e no copy() targets a slice just made with length 0; R15f an index returned by sort.Search* is never taken for membership without comparing the element found. NOT DECIDED: that each operation returns the value a set/map model gives, ascending order, absence of duplicates (run-time values).",
		Assumptions: commonAssumptions, TrustedBase: commonTrusted}})
}

func runC15(c *Ctx) {
	c.U0()
	const ra, rb, rc = "R15a write-only-fresh(data)", "R15b no-internal-storage-escapes", "R15c shared-empties-untouched"
	c.R.Rule(ra, "every write in package data targets storage allocated in the same activation; exported operations have an empty write summary on receiver/arguments", 8)
	c.R.Rule(rb, "exported operations return no raw slice/map/pointer aliasing receiver or argument storage", 1)
	c.R.Rule(rc, "no library function outside init writes memory reachable from data.EmptyIntSet / data.EmptyIntMap", 1)
	c.R.Rule("R15d map-entries-copied-whatever-their-value", "in package data no map entry is written under a condition on a value read from a map: clone/Inc/Filter decide by key membership only (a model map keeps entries whatever their value)", 2)
	c.R.Rule("R15f search-index-is-not-membership", "where the index returned by sort.SearchInts / sort.Search decides a branch by being in range, the same decision also compares the element at that index with the value searched for (the index is an insertion point, not a membership answer)", 0)
	c.R.Rule("R15e no-copy-into-an-empty-slice", "no copy() in package data has a destination that was just made with length 0 (copy transfers min(len(dst), len(src)) elements: such a call silently drops them)", 0)
	a := c.Own()
	if !a.Converged() {
		c.R.Undecided(ra, "fixpoint", "-", "-", "ownership analysis did not converge")
	}
	dataPkg := c.P.Lib["data"]
	if dataPkg == nil {
		c.R.Fail("coverage-lost", ra, "package data", "-", "-", "package data not found")
		return
	}
	all := func(e *own.Effect) (bool, string) {
		what := "memory"
		if e.Owner != nil {
			what = "field " + e.Owner.Obj().Name() + "." + e.Field
		} else if e.ElemOf != nil {
			what = "element of " + c.short(e.ElemOf)
		}
		return true, what
	}
	nfun := 0
	for _, fn := range c.P.LibFuncs {
		tp := load.PkgOf(fn)
		if tp == nil || tp != dataPkg.Types || fn.Synthetic != "" {
			continue
		}
		if fn.Name() == "init" {
			continue
		}
		nfun++
		c.ruleR15f("R15f search-index-is-not-membership", fn)
		c.ruleR15e("R15e no-copy-into-an-empty-slice", fn)
		c.ruleR15d("R15d map-entries-copied-whatever-their-value", fn)
		c.judgeWrites(ra, fn, all)
		// R15b
		if fn.Parent() == nil && fn.Object() != nil && fn.Object().Exported() {
			fi := a.Info[fn]
			res := fn.Signature.Results()
			for i := 0; i < res.Len(); i++ {
				t := res.At(i).Type()
				if n, ok := types.Unalias(t).(*types.Named); ok && n.Obj().Pkg() == dataPkg.Types {
					continue // IntSet / IntMap values are immutable by R15a; sharing storage between them is the design
				}
				if !ssax.HasRefs(t) {
					continue
				}
				var leak []string
				if i < len(fi.Results) {
					for o := range fi.Results[i] {
						if o.Root.K != own.RFresh {
							leak = append(leak, o.String())
						}
					}
				}
				sort.Strings(leak)
				site := fmt.Sprintf("%s result %d (%s)", c.name(fn), i, c.short(t))
				if len(leak) > 0 {
					c.R.Violation(rb, c.name(fn)+" result "+fmt.Sprint(i), c.name(fn), c.P.Pos(fn.Pos()), "exported operation returns a reference to internal storage: "+strings.Join(leak, ", ")+"; a caller can mutate a set/map value obtained earlier")
				} else {
					c.R.Hold(rb, site, "all origins fresh")
				}
			}
		}
	}
	c.R.Infof("package data: %d functions analysed", nfun)
	if f := c.P.Func("data.NewIntMap"); f != nil {
		fi := a.Info[f]
		if len(fi.Results) > 0 {
			for o := range fi.Results[0] {
				if o.Root.K == own.RParam {
					c.R.Infof("data.NewIntMap captures its argument (%s): the library never writes it (R15a), a caller who keeps the map can", o)
				}
			}
		}
	}
	// R15c over the whole library
	n := 0
	for _, fn := range c.P.LibFuncs {
		if fn.Name() == "init" && fn.Parent() == nil {
			continue
		}
		for _, e := range a.Info[fn].SortedEffects() {
			if e.Root.K == own.RGlobal && strings.HasPrefix(e.Root.Obj, "data.Empty") && e.In == fn && len(e.Chain) == 0 {
				c.R.Violation(rc, c.name(fn)+" writes "+e.Root.Obj, c.name(fn), c.P.InstrPos(e.Instr), "write through the shared empty value: "+a.Describe(e))
				n++
			}
		}
	}
	if n == 0 {
		c.R.Hold(rc, fmt.Sprintf("%d library functions", len(c.P.LibFuncs)), "no effect rooted at data.EmptyIntSet / data.EmptyIntMap outside init")
	}
}

// ---------------------------------------------------------------------------
// C07

func init() {
	register(&Property{ID: "C07", Run: runC07, Meta: report.Meta{ID: "C07",
		Explanation: "DECIDED (for all grammars, inputs and request orders at once, under A-user/A-alias): in every function reachable from a Parser.Parse of the library, each write to protected storage — fields of the node struct types, elements of []parsley.Node / ast.NodeList, fields of parsley.Result — targets storage allocated in the activation that performs it, after substituting the summaries of the designated mutators up the call graph (R07a); the scratch slice a sequence hands to its result handler is not retained by any library handler (R07b); the cache stores the very object it returns (R07c, shared with C03). A result that nobody but its allocator ever writes cannot change after it was returned. NOT DECIDED: behaviour of user-supplied parsers/handlers; the post-parse passes Transform/StaticCheck (outside the 'during the parse' window; verified not reachable from any Parser.Parse).",
		Assumptions: commonAssumptions, TrustedBase: commonTrusted}})
}

func runC07(c *Ctx) {
	c.U0()
	c.ruleR07a("R07a write-only-fresh(nodes)", 10, nil)
	c.ruleR07b()
	c.ruleCacheIdentity("R07c cache-stores-what-it-returns")
}

// ruleR07a: write-only-fresh over parser scope; filter restricts the protected storage further (used by C01/C03).
func (c *Ctx) ruleR07a(rule string, min int, filter func(*own.Effect) bool, pkgs ...string) {
	c.R.Rule(rule, "every write to node fields, node-list elements and cache results in Parser scope targets storage allocated in the same activation (mutator summaries substituted)", min)
	a := c.Own()
	if !a.Converged() {
		c.R.Undecided(rule, "fixpoint", "-", "-", "ownership analysis did not converge")
	}
	nodes := c.nodeStructs()
	if len(nodes) < 9 {
		c.R.Fail("coverage-lost", rule, "node types", "-", "-", fmt.Sprintf("only %d struct types implementing parsley.Node found, 11 confirmed by reading", len(nodes)))
	}
	prot := func(e *own.Effect) (bool, string) {
		ok, what := c.protC07(e, nodes)
		if ok && filter != nil && !filter(e) {
			return false, ""
		}
		return ok, what
	}
	for _, fn := range c.S.Sorted(c.S.Parser) {
		if fn.Synthetic != "" {
			continue
		}
		if len(pkgs) > 0 {
			in := false
			if tp := load.PkgOf(fn); tp != nil {
				for _, k := range pkgs {
					if c.P.Rel(tp.Path()) == k {
						in = true
					}
				}
			}
			if !in {
				continue
			}
		}
		c.judgeWrites(rule, fn, prot)
	}
	// the post-parse passes must stay outside parser scope
	for _, n := range []string{"(*ast.NonTerminalNode).Transform", "(*ast.NonTerminalNode).StaticCheck", "parsley.Transform", "parsley.StaticCheck"} {
		f := c.P.Func(n)
		if f == nil {
			continue
		}
		if c.S.Parser[f] {
			c.R.Violation(rule, n+" in parser scope", n, c.P.Pos(f.Pos()), "the in-place tree pass "+n+" is reachable from a Parser.Parse: it rewrites nodes during the parse")
		} else {
			c.R.Exempt("post-parse pass "+n, "runs after the root parser returned (parsley.Parse); verified not reachable from any Parser.Parse")
		}
	}
	var ns []string
	for tn := range nodes {
		ns = append(ns, tn.Pkg().Name()+"."+tn.Name())
	}
	sort.Strings(ns)
	c.R.Extra["protected_node_types"] = ns
	c.R.Extra["parser_scope_functions"] = len(c.S.Parser)
	c.R.Extra["parse_roots"] = len(c.S.ParseRoots)
	c.R.Extra["callgraph"] = fmt.Sprintf("%s, %d nodes, %d edges", c.P.CGAlgo, len(c.P.CG.Nodes), c.P.CGEdges)
}

// ruleR07b: a SeqResultHandler must not retain the nodes slice it is given.
func (c *Ctx) ruleR07b() {
	const rule = "R07b scratch-does-not-escape"
	c.R.Rule(rule, "in every library SeqResultHandler the nodes parameter flows only to len/cap, element reads, the source of copy, or another handler call", 2)
	var hsig *types.Signature
	if t := c.lookupType("combinator", "SeqResultHandlerFunc"); t != nil {
		hsig, _ = t.Underlying().(*types.Signature)
	}
	if hsig == nil {
		c.R.Fail("coverage-lost", rule, "SeqResultHandlerFunc", "-", "-", "type combinator.SeqResultHandlerFunc not found")
		return
	}
	for _, fn := range c.P.LibFuncs {
		if fn.Synthetic != "" {
			continue
		}
		if !types.Identical(types.NewSignatureType(nil, nil, nil, fn.Signature.Params(), fn.Signature.Results(), false), hsig) {
			continue
		}
		// the nodes parameter: the one of slice-of-node type
		for _, p := range fn.Params {
			if !c.isNodeSlice(p.Type()) {
				continue
			}
			bad := c.retained(p, map[ssa.Value]bool{})
			site := c.name(fn) + " param " + p.Name()
			if bad != nil {
				c.R.Violation(rule, c.name(fn)+" retains "+p.Name(), c.name(fn), c.P.InstrPos(bad), fmt.Sprintf("result handler lets the scratch slice %q escape (%s): the sequence overwrites it for the next alternative, changing a node that was already returned", p.Name(), bad.String()))
			} else {
				c.R.Hold(rule, site, "only len/element reads/copy source/handler delegation")
			}
		}
	}
}

// retained returns the first instruction through which slice value v escapes, or nil.
func (c *Ctx) retained(v ssa.Value, seen map[ssa.Value]bool) ssa.Instruction {
	if seen[v] {
		return nil
	}
	seen[v] = true
	if v.Referrers() == nil {
		return nil
	}
	for _, r := range *v.Referrers() {
		switch x := r.(type) {
		case *ssa.Call:
			if b, ok := x.Call.Value.(*ssa.Builtin); ok {
				switch b.Name() {
				case "len", "cap":
					continue
				case "copy":
					if x.Call.Args[1] == v && x.Call.Args[0] != v {
						continue
					}
				case "append":
					// append(dst, v...) copies the elements; append(v, ...) extends the scratch
					if len(x.Call.Args) > 1 && x.Call.Args[1] == v && x.Call.Args[0] != v {
						continue
					}
				}
				return x
			}
			// delegation to another handler (same signature): checked there, or user code (A-user)
			if sig := ssax.CallSig(x); sig != nil && sig.Params().Len() == 4 && c.isNodeSlice(sig.Params().At(2).Type()) {
				continue
			}
			return x
		case *ssa.IndexAddr:
			// element address: reads only
			if x.Referrers() != nil {
				for _, rr := range *x.Referrers() {
					if st, ok := rr.(*ssa.Store); ok && st.Addr == x {
						return st
					}
					if _, ok := rr.(*ssa.UnOp); !ok {
						if _, isDbg := rr.(*ssa.DebugRef); !isDbg {
							return rr
						}
					}
				}
			}
		case *ssa.Slice:
			if bad := c.retained(x, seen); bad != nil {
				return bad
			}
		case *ssa.Phi:
			if bad := c.retained(x, seen); bad != nil {
				return bad
			}
		case *ssa.DebugRef:
		case *ssa.Range:
			// iteration reads elements
		default:
			return r
		}
	}
	return nil
}

// ruleR15d: a map update in package data is never guarded by a test on a VALUE read from a map (only by membership,
// lengths, nil tests): the operations of an int map copy or keep entries whatever number they hold.
func (c *Ctx) ruleR15d(rule string, fn *ssa.Function) {
	var fromMapValue func(v ssa.Value, seen map[ssa.Value]bool) bool
	fromMapValue = func(v ssa.Value, seen map[ssa.Value]bool) bool {
		if seen[v] {
			return false
		}
		seen[v] = true
		switch x := v.(type) {
		case *ssa.Lookup:
			_, isMap := x.X.Type().Underlying().(*types.Map)
			return isMap && !x.CommaOk
		case *ssa.Extract:
			switch t := x.Tuple.(type) {
			case *ssa.Lookup:
				return x.Index == 0
			case *ssa.Next:
				return !t.IsString && x.Index == 2
			}
			return false
		case *ssa.BinOp:
			return fromMapValue(x.X, seen) || fromMapValue(x.Y, seen)
		case *ssa.UnOp:
			return fromMapValue(x.X, seen)
		case *ssa.Convert:
			return fromMapValue(x.X, seen)
		case *ssa.Phi:
			for _, e := range x.Edges {
				if fromMapValue(e, seen) {
					return true
				}
			}
		}
		return false
	}
	for _, b := range fn.Blocks {
		for _, in := range b.Instrs {
			mu, ok := in.(*ssa.MapUpdate)
			if !ok {
				continue
			}
			bad := false
			for _, cd := range ssax.DominatingConds(b) {
				if fromMapValue(cd.Val, map[ssa.Value]bool{}) {
					bad = true
					c.R.Violation(rule, c.name(fn)+" value-dependent map update", c.name(fn), c.P.InstrPos(mu), "this entry is written only under a condition on a value read from a map ("+cd.Val.String()+"): entries holding some values are dropped or treated differently, whereas a plain map model copies an entry whatever its value")
				}
			}
			if !bad {
				c.R.Hold(rule, c.name(fn)+" map update @"+c.P.InstrPos(mu), "guarded by membership / structure only")
			}
		}
	}
}

// ruleR15e: copy(dst, src) where dst is, at that point, a slice made with length 0 transfers nothing. The destination
// is resolved through a store to a local struct field earlier in the same block (store-to-load forwarding).
func (c *Ctx) ruleR15e(rule string, fn *ssa.Function) {
	for _, b := range fn.Blocks {
		for idx, in := range b.Instrs {
			cl, ok := in.(*ssa.Call)
			if !ok {
				continue
			}
			bi, isB := cl.Call.Value.(*ssa.Builtin)
			if !isB || bi.Name() != "copy" || len(cl.Call.Args) != 2 {
				continue
			}
			dst := cl.Call.Args[0]
			// forward a store to the same local field in this block
			if u, ok := dst.(*ssa.UnOp); ok && u.Op == token.MUL {
				if fa, ok := u.X.(*ssa.FieldAddr); ok {
					if _, local := fa.X.(*ssa.Alloc); local {
					scan:
						for k := idx - 1; k >= 0; k-- {
							switch x := b.Instrs[k].(type) {
							case *ssa.Store:
								if fa2, ok := x.Addr.(*ssa.FieldAddr); ok && fa2.X == fa.X && fa2.Field == fa.Field {
									dst = x.Val
									break scan
								}
							case *ssa.Call:
								if _, isBuiltin := x.Call.Value.(*ssa.Builtin); !isBuiltin {
									break scan
								}
							}
						}
					}
				}
			}
			site := c.name(fn) + " copy @" + c.P.InstrPos(cl)
			if ms, ok := dst.(*ssa.MakeSlice); ok {
				if k, isC := ssax.ConstInt(ms.Len); isC && k == 0 {
					c.R.Violation(rule, c.name(fn)+" copy into an empty slice", c.name(fn), c.P.InstrPos(cl), "the destination of this copy was made with length 0 (only its capacity is set), so copy() transfers no element: the data meant to be copied is silently dropped from the result")
					continue
				}
			}
			c.R.Hold(rule, site, "destination not a freshly made zero-length slice")
		}
	}
}

// ruleR15f: sort.SearchInts(a, x) returns the insertion index. A block governed by `n < len(a)` (or its mirror) and
// treating that as "x is in a" must also be governed by a comparison of a[n] with x.
func (c *Ctx) ruleR15f(rule string, fn *ssa.Function) {
	for _, call := range ssax.Calls(fn) {
		cl, ok := call.(*ssa.Call)
		if !ok {
			continue
		}
		n := extCallName(cl)
		if n != "sort.SearchInts" && n != "sort.Search" {
			continue
		}
		site := c.name(fn) + " " + n + " @" + c.P.InstrPos(cl)
		// blocks governed by a range test on the index
		judged := false
		for _, b := range fn.Blocks {
			inRange, elemCmp := false, false
			for _, cd := range ssax.DominatingConds(b) {
				op, x, y, isCmp := ssax.CmpOp(cd.Val)
				if !isCmp {
					continue
				}
				if !cd.Truth {
					op = ssax.Negate(op)
				}
				isLen := func(v ssa.Value) bool {
					k, ok := v.(*ssa.Call)
					if !ok {
						return false
					}
					bi, isB := k.Call.Value.(*ssa.Builtin)
					return isB && bi.Name() == "len"
				}
				if x == ssa.Value(cl) && isLen(y) && op == token.LSS || y == ssa.Value(cl) && isLen(x) && op == token.GTR {
					inRange = true
				}
				// a[n] compared with something
				for _, side := range []ssa.Value{x, y} {
					if u, ok := side.(*ssa.UnOp); ok && u.Op == token.MUL {
						if ia, ok := u.X.(*ssa.IndexAddr); ok && ia.Index == ssa.Value(cl) && (op == token.EQL || op == token.NEQ) {
							elemCmp = true
						}
					}
				}
			}
			if !inRange {
				continue
			}
			// does the governed block act (write a map/slice or return) ?
			acts := false
			for _, in := range b.Instrs {
				switch in.(type) {
				case *ssa.MapUpdate, *ssa.Store, *ssa.Return:
					acts = true
				}
			}
			if !acts {
				continue
			}
			judged = true
			// is the element at the index found read anywhere (compared here, or handed back to the caller)?
			elemRead := false
			for _, b2 := range fn.Blocks {
				for _, i2 := range b2.Instrs {
					if u, ok := i2.(*ssa.UnOp); ok && u.Op == token.MUL {
						if ia, ok := u.X.(*ssa.IndexAddr); ok && ia.Index == ssa.Value(cl) {
							elemRead = true
						}
					}
				}
			}
			if !elemCmp && !elemRead {
				c.R.Violation(rule, c.name(fn)+" search index used as membership", c.name(fn), c.P.InstrPos(cl), "the index returned by "+n+" is only tested for being in range before the code acts on it: that index is the insertion point, so every value not greater than the largest element passes as 'found'")
				return
			}
		}
		if judged {
			c.R.Hold(rule, site, "range test paired with a comparison of the element found")
		}
	}
}
