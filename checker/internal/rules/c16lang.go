package rules

import (
	"fmt"
	"go/token"
	"go/types"
	"sort"

	"golang.org/x/tools/go/ssa"

	"pv/internal/relang"
	"pv/internal/ssax"
)

// jsonNumberSpecs: the number syntax of JSON (RFC 8259) restricted to what the property says the example grammar
// supports: integers, and decimals with a fraction and an optional exponent.
var jsonNumberSpecs = map[string]struct{ what, re string }{
	"Float":   {"a JSON number with a fraction and an optional exponent", `-?(?:0|[1-9][0-9]*)\.[0-9]+(?:[eE][+-]?[0-9]+)?`},
	"Integer": {"a JSON integer", `-?(?:0|[1-9][0-9]*)`},
}

// patternArgs: the constant patterns handed to the reader's regexp primitives anywhere inside fn and its closures.
func (c *Ctx) patternArgs(fn *ssa.Function, depth int) (pats []string, sites []ssa.Instruction, opaque bool) {
	if depth > 3 {
		return
	}
	for _, call := range ssax.Calls(fn) {
		sc := call.Common().StaticCallee()
		if sc == nil || sc.Signature.Recv() == nil || !ssax.PtrNamedIs(sc.Signature.Recv().Type(), "text", "Reader") {
			continue
		}
		// a reader primitive taking a pattern: the one that reaches regexp compilation with its string parameter
		if !c.takesPattern(sc) {
			continue
		}
		for _, a := range call.Common().Args[1:] {
			if bt, ok := a.Type().Underlying().(*types.Basic); !ok || bt.Info()&types.IsString == 0 {
				continue
			}
			if s, ok := c.constStringValue(a); ok {
				pats = append(pats, s)
				sites = append(sites, call)
			} else {
				opaque = true
			}
		}
	}
	for _, an := range fn.AnonFuncs {
		p, s, o := c.patternArgs(an, depth+1)
		pats, sites, opaque = append(pats, p...), append(sites, s...), opaque || o
	}
	return
}

// takesPattern: the reader method hands a string parameter on to the pattern cache (the function compiling regexps).
func (c *Ctx) takesPattern(m *ssa.Function) bool {
	if c.patFns == nil {
		c.patFns = map[*ssa.Function]bool{}
		// seed: reader functions calling regexp.Compile/MustCompile directly or through a helper
		var seeds []*ssa.Function
		for _, f := range c.P.LibFuncs {
			for _, call := range ssax.Calls(f) {
				if sc := call.Common().StaticCallee(); sc != nil && sc.Pkg != nil && sc.Pkg.Pkg.Path() == "regexp" && (sc.Name() == "MustCompile" || sc.Name() == "Compile") {
					seeds = append(seeds, f)
				}
			}
		}
		work := seeds
		for len(work) > 0 {
			f := work[0]
			work = work[1:]
			if c.patFns[f] {
				continue
			}
			c.patFns[f] = true
			for _, e := range c.P.Callers(f) {
				g := e.Caller.Func
				if g == nil || !c.P.InLib(g) || g.Pkg != f.Pkg || c.patFns[g] {
					continue
				}
				// only while still inside the reader's package and while a string parameter is passed along
				passes := false
				if e.Site != nil {
					for _, a := range e.Site.Common().Args {
						if p, ok := a.(*ssa.Parameter); ok {
							if bt, ok := p.Type().Underlying().(*types.Basic); ok && bt.Info()&types.IsString != 0 {
								passes = true
							}
						}
					}
				}
				if passes {
					work = append(work, g)
				}
			}
		}
	}
	return c.patFns[m]
}

// constStringValue: a string constant, or a package-level variable initialised once with one.
func (c *Ctx) constStringValue(v ssa.Value) (string, bool) {
	v = ssax.Strip(v)
	if s, ok := constString(v); ok {
		return s, true
	}
	if u, ok := v.(*ssa.UnOp); ok && u.Op == token.MUL {
		if g, ok := u.X.(*ssa.Global); ok {
			n, val := 0, ""
			for _, fn := range c.P.LibFuncs {
				for _, b := range fn.Blocks {
					for _, in := range b.Instrs {
						if st, ok := in.(*ssa.Store); ok && st.Addr == ssa.Value(g) {
							n++
							if s, ok := constString(st.Val); ok && isInit(fn) {
								val = s
							} else {
								n += 10
							}
						}
					}
				}
			}
			if n == 1 {
				return val, true
			}
		}
	}
	return "", false
}

// ruleR16c: every number of the supported JSON subset is a word of the literal parser's pattern.
func (c *Ctx) ruleR16c(rule string) {
	c.R.Rule(rule, "the language of the pattern delimiting terminal.Float contains every JSON number with a fraction (and optional exponent), that of terminal.Integer every JSON integer (automaton inclusion between the pattern constant and the JSON number syntax)", 0)
	// which literal parsers does the example grammar use?
	np := c.P.Func("examples/json/json.NewParser")
	if np == nil {
		for _, fn := range c.P.LibFuncs {
			if fn.Name() == "NewParser" && fn.Pkg != nil && fn.Pkg.Pkg.Name() == "json" {
				np = fn
			}
		}
	}
	used := map[string]*ssa.Function{}
	if np != nil {
		var scan func(f *ssa.Function, d int)
		scan = func(f *ssa.Function, d int) {
			for _, call := range ssax.Calls(f) {
				if sc := call.Common().StaticCallee(); sc != nil && sc.Pkg != nil && sc.Pkg.Pkg.Name() == "terminal" {
					if _, ok := jsonNumberSpecs[sc.Name()]; ok {
						used[sc.Name()] = sc
					}
				}
			}
			if d < 2 {
				for _, an := range f.AnonFuncs {
					scan(an, d+1)
				}
			}
		}
		scan(np, 0)
	}
	if np == nil || len(used) == 0 {
		c.R.Exempt("JSON number literals", "the example grammar does not build its numbers from terminal.Float / terminal.Integer (or was not found): the inclusion is not decided")
		return
	}
	var names []string
	for n := range used {
		names = append(names, n)
	}
	sort.Strings(names)
	for _, n := range names {
		ctor := used[n]
		spec := jsonNumberSpecs[n]
		pats, sites, opaque := c.patternArgs(ctor, 0)
		if len(pats) == 0 || opaque {
			c.R.Exempt("terminal."+n+" pattern", "the literal is not delimited by constant regular expressions only (hand-written scanning or computed patterns): the inclusion is not decided")
			continue
		}
		a, err := relang.Compile(spec.re)
		if err != nil {
			c.R.Undecided(rule, "spec "+n, "-", "-", "internal: "+err.Error())
			continue
		}
		// several patterns: the union must cover the syntax; decided per pattern and reported if none covers it
		covered := false
		var witness string
		var at ssa.Instruction
		undecided := ""
		for i, p := range pats {
			b, err := relang.Compile(p)
			if err != nil {
				undecided = err.Error()
				continue
			}
			ok, w := relang.Included(a, b)
			if ok {
				covered = true
				c.R.Hold(rule, "terminal."+n+" pattern @"+c.P.InstrPos(sites[i]), fmt.Sprintf("L(%s) contains every word of %s", p, spec.re))
			} else if witness == "" {
				witness, at = w, sites[i]
			}
		}
		switch {
		case covered:
		case undecided != "" && witness == "":
			c.R.Exempt("terminal."+n+" pattern", "pattern outside the decided fragment ("+undecided+"): the inclusion is not decided")
		default:
			c.R.Violation(rule, "terminal."+n+" does not cover the JSON syntax", c.name(ctor), c.P.InstrPos(at),
				fmt.Sprintf("%q is %s, but it is not a word of the pattern that delimits terminal.%s: the example parser cannot consume it as one literal, so it rejects the document or evaluates it to a different value than encoding/json", witness, spec.what, n))
		}
	}
}

// ruleR16d: the Array/Object interpreters store one entry per visited element: the store into the result is executed
// on every completed iteration (no path skips it), with the element's own evaluated value.
func (c *Ctx) ruleR16d(rule string) {
	c.R.Rule(rule, "in interpreter.Array and interpreter.Object the store into the result dominates every back edge of the loop (an entry per visited element; for objects a later duplicate key overwrites an earlier one, as in encoding/json) and stores a value computed in that iteration", 0)
	for _, name := range []string{"Array", "Object"} {
		ctor := c.P.Func("ast/interpreter." + name)
		if ctor == nil {
			c.R.Exempt("interpreter."+name, "not found: not decided")
			continue
		}
		fns := append([]*ssa.Function{ctor}, ctor.AnonFuncs...)
		// a named function handed out as the interpreter
		for _, b := range ctor.Blocks {
			for _, in := range b.Instrs {
				for _, op := range in.Operands(nil) {
					if f, ok := (*op).(*ssa.Function); ok && c.P.InLib(f) && len(f.Blocks) > 0 && f != ctor {
						fns = append(fns, f)
					}
				}
			}
		}
		found := false
		for _, fn := range fns {
			for _, b := range fn.Blocks {
				for _, in := range b.Instrs {
					var stored ssa.Value
					var target ssa.Value
					switch x := in.(type) {
					case *ssa.MapUpdate:
						stored, target = x.Value, x.Map
					case *ssa.Store:
						if ia, ok := x.Addr.(*ssa.IndexAddr); ok {
							stored, target = x.Val, ia.X
						}
					}
					if stored == nil {
						continue
					}
					// the result container: made in this function
					switch ssax.Strip(target).(type) {
					case *ssa.MakeMap, *ssa.MakeSlice:
					default:
						continue
					}
					head := innermostLoopHeader(b)
					if head == nil {
						continue
					}
					found = true
					site := "interpreter." + name + " store @" + c.P.InstrPos(in)
					// every test inside the loop that decides whether the store runs either leaves the function on its other
					// side (an error return) or depends on the element's index only (skipping separators by parity)
					okDom := true
					for _, cd := range ssax.DominatingConds(b) {
						if cd.At == nil || !head.Dominates(cd.At) || cd.At == head {
							continue
						}
						if indexOnly(cd.Val, head, 0) {
							continue
						}
						other := cd.At.Succs[0]
						if cd.Truth {
							other = cd.At.Succs[1]
						}
						if ssax.Reaches(other, head, true) {
							okDom = false
						}
					}
					if len(ssax.DominatingConds(b)) == 0 {
						for _, p := range head.Preds {
							if head.Dominates(p) && !b.Dominates(p) {
								okDom = false
							}
						}
					}
					if !okDom {
						c.R.Violation(rule, "interpreter."+name+" skips entries", c.name(fn), c.P.InstrPos(in), "some path through the loop reaches the next iteration without storing the element's value: entries are dropped (for objects: a later duplicate key no longer overwrites the earlier one, encoding/json keeps the last)")
						continue
					}
					// the stored value is computed in this iteration (from this element's evaluation)
					inLoop := false
					if vi, ok := ssax.Strip(stored).(ssa.Instruction); ok && vi.Block() != nil && head.Dominates(vi.Block()) && vi.Block() != head {
						inLoop = true
					}
					if e, ok := ssax.Strip(stored).(*ssa.Extract); ok {
						if cl, ok := e.Tuple.(*ssa.Call); ok && head.Dominates(cl.Block()) {
							inLoop = true
						}
					}
					if !inLoop {
						c.R.Violation(rule, "interpreter."+name+" stores another value", c.name(fn), c.P.InstrPos(in), "the value stored is not computed from this iteration's element")
						continue
					}
					c.R.Hold(rule, site, "dominates every back edge; stores this iteration's evaluated value")
				}
			}
		}
		if !found {
			c.R.Exempt("interpreter."+name, "no loop storing into a result container made by the function was recognised: not decided")
		}
	}
}

// innermostLoopHeader: the header of the innermost natural loop containing b (nil if none).
func innermostLoopHeader(b *ssa.BasicBlock) *ssa.BasicBlock {
	var best *ssa.BasicBlock
	for _, h := range b.Parent().Blocks {
		if !h.Dominates(b) {
			continue
		}
		isHeader := false
		for _, p := range h.Preds {
			if h.Dominates(p) && (p == b || ssax.Reaches(b, p, false) || b == h) {
				isHeader = true
			}
		}
		if isHeader && (best == nil || best.Dominates(h)) {
			best = h
		}
	}
	return best
}

// indexOnly: the value is computed from the loop's integer induction variables, constants and lengths only.
func indexOnly(v ssa.Value, head *ssa.BasicBlock, depth int) bool {
	if depth > 8 {
		return false
	}
	switch x := v.(type) {
	case *ssa.Const:
		return true
	case *ssa.Phi:
		bt, ok := x.Type().Underlying().(*types.Basic)
		return ok && bt.Info()&types.IsInteger != 0 && x.Block() == head
	case *ssa.BinOp:
		return indexOnly(x.X, head, depth+1) && indexOnly(x.Y, head, depth+1)
	case *ssa.UnOp:
		return x.Op == token.NOT && indexOnly(x.X, head, depth+1)
	case *ssa.Convert:
		return indexOnly(x.X, head, depth+1)
	case *ssa.Call:
		if bi, ok := x.Call.Value.(*ssa.Builtin); ok && bi.Name() == "len" {
			return true
		}
	}
	return false
}
