package rules

import (
	"fmt"
	"go/token"
	"go/types"

	"golang.org/x/tools/go/ssa"

	"pv/internal/ssax"
)

// The reuse test of the result cache, decided over the paths of (parsley.ResultCache).Get rather than from one
// source shape: whatever way the loop is written (early return, flag and break, index loop, helper predicate), a
// path may end in a hit only if the entry was found, every key of the stored context was visited and no visited
// counter exceeded the current one; a path may end in a miss only if there was no entry or some counter did exceed.

// idxLoop is `for every index of slice S from 0 upwards by 1 until len(S)`.
type idxLoop struct {
	slice       ssa.Value
	test        *ssa.If
	cond        ssa.Value // test condition with negations stripped
	exhaustedOn bool      // outcome of cond on which the loop has visited every index
}

func stripNot(v ssa.Value) (ssa.Value, bool) {
	neg := false
	for {
		u, ok := v.(*ssa.UnOp)
		if !ok || u.Op != token.NOT {
			return v, neg
		}
		v, neg = u.X, !neg
	}
}

func isLenOf(v ssa.Value, s ssa.Value) bool {
	cl, ok := v.(*ssa.Call)
	if !ok {
		return false
	}
	bi, ok := cl.Call.Value.(*ssa.Builtin)
	return ok && bi.Name() == "len" && len(cl.Call.Args) == 1 && sameSliceValue(cl.Call.Args[0], s)
}

// sameSliceValue: identical values, or two loads of the same field of the same object (a field re-read in the loop
// condition; the rules using this establish separately that the field is not reassigned meanwhile).
func sameSliceValue(a, b ssa.Value) bool {
	if a == b {
		return true
	}
	ba, fa, oka := fieldLoad(a)
	bb, fb, okb := fieldLoad(b)
	return oka && okb && fa == fb && ba == bb
}

// indexLoopOf recognises the loop whose index idx is used to address slice s: the rotated form go/ssa builds for
// `for range` (idx = phi(-1, idx) + 1, tested idx < len(s)) and the classic form (idx = phi(0, idx+1), tested
// against len(s) with <, !=, >= or ==).
func indexLoopOf(idx ssa.Value, s ssa.Value) *idxLoop {
	var phi *ssa.Phi
	var tested ssa.Value
	switch x := idx.(type) {
	case *ssa.BinOp:
		one, isC := ssax.ConstInt(x.Y)
		p, isP := x.X.(*ssa.Phi)
		if x.Op != token.ADD || !isC || one != 1 || !isP || len(p.Edges) != 2 {
			return nil
		}
		start, loop := false, false
		for _, e := range p.Edges {
			if k, ok := ssax.ConstInt(e); ok && k == -1 {
				start = true
			}
			if e == idx {
				loop = true
			}
		}
		if !start || !loop {
			return nil
		}
		phi, tested = p, x
	case *ssa.Phi:
		if len(x.Edges) != 2 {
			return nil
		}
		start, loop := false, false
		for _, e := range x.Edges {
			if k, ok := ssax.ConstInt(e); ok && k == 0 {
				start = true
			}
			if b, ok := e.(*ssa.BinOp); ok && b.Op == token.ADD && b.X == ssa.Value(x) {
				if one, isC := ssax.ConstInt(b.Y); isC && one == 1 {
					loop = true
				}
			}
		}
		if !start || !loop {
			return nil
		}
		phi, tested = x, x
	default:
		return nil
	}
	_ = phi
	refs := tested.Referrers()
	if refs == nil {
		return nil
	}
	for _, r := range *refs {
		cmp, ok := r.(*ssa.BinOp)
		if !ok {
			continue
		}
		op, x, y := cmp.Op, cmp.X, cmp.Y
		if y == tested && isLenOf(x, s) {
			x, y, op = y, x, ssax.Swap(op)
		}
		if x != tested || !isLenOf(y, s) {
			continue
		}
		var exhaustedOn bool
		switch op {
		case token.LSS, token.NEQ:
			exhaustedOn = false
		case token.GEQ, token.EQL:
			exhaustedOn = true
		default:
			continue
		}
		// the If testing it (possibly through negations)
		var ifi *ssa.If
		var seen = map[ssa.Value]bool{}
		var find func(v ssa.Value, neg bool)
		find = func(v ssa.Value, neg bool) {
			if seen[v] || v.Referrers() == nil {
				return
			}
			seen[v] = true
			for _, u := range *v.Referrers() {
				switch t := u.(type) {
				case *ssa.If:
					if t.Cond == v {
						ifi = t
					}
				case *ssa.UnOp:
					if t.Op == token.NOT {
						find(t, !neg)
					}
				}
			}
		}
		find(cmp, false)
		if ifi == nil {
			continue
		}
		return &idxLoop{slice: s, test: ifi, cond: cmp, exhaustedOn: exhaustedOn}
	}
	return nil
}

// cmpSite is one test of the reuse condition inside fn.
type cmpSite struct {
	at        *ssa.BasicBlock
	cond      ssa.Value // negations stripped
	violTruth bool      // outcome of cond meaning "a stored counter exceeds the current one"
	loop      *idxLoop  // nil for a composite site (a helper deciding the whole condition)
	pos       ssa.Instruction
}

type coversInfo struct {
	sites    []cmpSite
	problems []string
	probAt   ssa.Instruction
}

func sameKey(a, b ssa.Value) (slice, idx ssa.Value, ok bool) {
	la, oka := a.(*ssa.UnOp)
	lb, okb := b.(*ssa.UnOp)
	if !oka || !okb || la.Op != token.MUL || lb.Op != token.MUL {
		return nil, nil, false
	}
	ia, oka := la.X.(*ssa.IndexAddr)
	ib, okb := lb.X.(*ssa.IndexAddr)
	if !oka || !okb {
		return nil, nil, false
	}
	if a != b && (ia.X != ib.X || ia.Index != ib.Index) {
		return nil, nil, false
	}
	return ia.X, ia.Index, true
}

// coversSites finds the reuse-condition tests of fn. isStored / isCurrent classify IntMap values of fn.
func (c *Ctx) coversSites(fn *ssa.Function, isStored, isCurrent, isEntry func(ssa.Value) bool, depth int) *coversInfo {
	info := &coversInfo{}
	problem := func(at ssa.Instruction, s string) {
		info.problems = append(info.problems, s)
		if info.probAt == nil {
			info.probAt = at
		}
	}
	for _, b := range fn.Blocks {
		if len(b.Instrs) == 0 {
			continue
		}
		ifi, ok := b.Instrs[len(b.Instrs)-1].(*ssa.If)
		if !ok {
			continue
		}
		cond, _ := stripNot(ifi.Cond)
		// a helper deciding the whole condition
		if cl, ok := cond.(*ssa.Call); ok && depth < 2 {
			h := cl.Call.StaticCallee()
			if h != nil && !cl.Call.IsInvoke() && c.P.InLib(h) && len(h.Blocks) > 0 && h.Signature.Results().Len() == 1 {
				if bt, ok := h.Signature.Results().At(0).Type().Underlying().(*types.Basic); ok && bt.Kind() == types.Bool {
					he := func(v ssa.Value) bool { return paramBoundTo(h, cl, v, isEntry) }
					hs := func(v ssa.Value) bool {
						if paramBoundTo(h, cl, v, isStored) {
							return true
						}
						// the helper is handed the entry itself and reads its stored context
						base, name, isLoad := fieldLoad(ssax.Strip(v))
						return isLoad && name == "LeftRecCtx" && he(base)
					}
					hc := func(v ssa.Value) bool { return paramBoundTo(h, cl, v, isCurrent) }
					hi := c.coversSites(h, hs, hc, he, depth+1)
					if len(hi.sites) == 0 && len(hi.problems) == 0 {
						// the helper may walk the stored context with IntMap.Each and a flag-setting callback
						if acceptOn, ok, why := c.coversByEach(h, hs, hc); ok {
							if why != "" {
								problem(cl, "the helper "+c.name(h)+" deciding the reuse condition: "+why)
							} else {
								info.sites = append(info.sites, cmpSite{at: b, cond: cond, violTruth: !acceptOn, pos: cl})
							}
							continue
						}
					}
					if len(hi.sites) > 0 || len(hi.problems) > 0 {
						if len(hi.problems) > 0 {
							problem(hi.probAt, hi.problems[0])
							continue
						}
						acceptOn, why := c.coversHelperVerdict(h, hi)
						if why != "" {
							problem(cl, "the helper "+c.name(h)+" deciding the reuse condition: "+why)
							continue
						}
						info.sites = append(info.sites, cmpSite{at: b, cond: cond, violTruth: !acceptOn, pos: cl})
					}
				}
			}
			continue
		}
		op, x, y, isCmp := ssax.CmpOp(cond)
		if !isCmp {
			continue
		}
		gx, okx := isStaticMethod(x, "data", "IntMap", "Get")
		gy, oky := isStaticMethod(y, "data", "IntMap", "Get")
		if !okx || !oky {
			continue
		}
		ax, ay := gx.Call.Args[0], gy.Call.Args[0]
		switch {
		case isStored(ax) && isCurrent(ay):
		case isStored(ay) && isCurrent(ax):
			op = ssax.Swap(op)
		default:
			// a comparison of two IntMap counters that is not stored-against-current: if it involves either, it is a
			// malformed reuse test
			if isStored(ax) || isStored(ay) || isCurrent(ax) || isCurrent(ay) {
				problem(ifi, "a counter comparison does not compare the STORED context's counter with the CURRENT one for the same key")
			}
			continue
		}
		slice, idx, same := gx.Call.Args[1], gy.Call.Args[1], false
		if s, i, ok := sameKey(gx.Call.Args[1], gy.Call.Args[1]); ok {
			slice, idx, same = s, i, true
		}
		if !same {
			problem(ifi, "the stored and the current counter are not looked up under the same key")
			continue
		}
		// the key slice is Keys() of the stored context
		keysOfStored := false
		for _, l := range ssax.Leaves(slice) {
			if kc, isK := isStaticMethod(l, "data", "IntMap", "Keys"); isK && isStored(kc.Call.Args[0]) {
				keysOfStored = true
			}
		}
		if !keysOfStored {
			problem(ifi, "the reuse test does not iterate over the keys of the stored context (IntMap.Keys of entry.LeftRecCtx): some stored counter is never compared, and a result is reused where less recursion was allowed than it depends on")
			continue
		}
		loop := indexLoopOf(idx, slice)
		if loop == nil {
			problem(ifi, "the loop over the stored context's keys is not a full index range 0..len(keys)-1 in a recognised form")
			continue
		}
		var violTruth bool
		switch op {
		case token.GTR, token.GEQ:
			violTruth = true
		case token.LEQ, token.LSS:
			violTruth = false
		default:
			problem(ifi, fmt.Sprintf("the stored and current counters are compared with %s; the reuse condition is 'stored count <= current count for every stored key'", op))
			continue
		}
		info.sites = append(info.sites, cmpSite{at: b, cond: cond, violTruth: violTruth, loop: loop, pos: ifi})
	}
	return info
}

// paramBoundTo: inside helper h (called at cl), v is the parameter whose argument satisfies pred.
func paramBoundTo(h *ssa.Function, cl *ssa.Call, v ssa.Value, pred func(ssa.Value) bool) bool {
	v = ssax.Strip(v)
	for i, p := range h.Params {
		if ssa.Value(p) == v && i < len(cl.Call.Args) && pred(cl.Call.Args[i]) {
			return true
		}
	}
	return false
}

// pathVerdict summarises one path with respect to the reuse-condition tests.
type pathVerdict struct {
	viol, exhausted bool
}

func (info *coversInfo) verdict(p *pathState) pathVerdict {
	var v pathVerdict
	for _, ev := range p.events {
		for _, s := range info.sites {
			if ev.at == s.at && ev.cond == s.cond {
				if ev.truth == s.violTruth {
					v.viol = true
				} else if s.loop == nil {
					v.exhausted = true // the helper vouches for all keys
				}
			}
			if s.loop != nil && ev.at == s.loop.test.Block() && ev.cond == s.loop.cond && ev.truth == s.loop.exhaustedOn {
				v.exhausted = true
			}
		}
	}
	return v
}

// boolOnPath evaluates a boolean along the path.
func boolOnPath(p *pathState, v ssa.Value) (val, known bool) {
	v = p.resolve(v)
	x, neg := stripNot(v)
	x = p.resolve(x)
	if k, ok := ssax.ConstBool(x); ok {
		return k != neg, true
	}
	if k, ok := p.bools[x]; ok {
		return k != neg, true
	}
	return false, false
}

// coversHelperVerdict: the bool helper h returns one value exactly on the paths where every stored key was visited
// without a violation, and the other value exactly where a violation was seen.
func (c *Ctx) coversHelperVerdict(h *ssa.Function, info *coversInfo) (acceptOn bool, why string) {
	acceptSet, have := false, false
	ok := walkPaths(h, isReturn, func(p *pathState, in ssa.Instruction) {
		if why != "" {
			return
		}
		r := in.(*ssa.Return)
		val, known := boolOnPath(p, r.Results[0])
		if !known {
			why = "returns a value that is not decided by its tests at " + c.P.InstrPos(r)
			return
		}
		v := info.verdict(p)
		switch {
		case !v.viol && v.exhausted:
			if have && acceptSet != val {
				why = "is inconsistent about what it returns when all counters are covered"
			}
			acceptSet, have = val, true
		case v.viol:
			// must be the opposite of accept; checked below once accept is known
		default:
			why = "returns at " + c.P.InstrPos(r) + " without having compared every stored counter"
		}
	})
	if !ok {
		return false, "too many paths"
	}
	if why != "" {
		return false, why
	}
	if !have {
		return false, "has no path that accepts"
	}
	// second pass: violating paths return the opposite
	walkPaths(h, isReturn, func(p *pathState, in ssa.Instruction) {
		r := in.(*ssa.Return)
		val, known := boolOnPath(p, r.Results[0])
		v := info.verdict(p)
		if known && v.viol && val == acceptSet && why == "" {
			why = "accepts at " + c.P.InstrPos(r) + " although a stored counter exceeds the current one"
		}
	})
	return acceptSet, why
}

// checkCacheGet analyses (parsley.ResultCache).Get.
func (c *Ctx) checkCacheGet(rule string) {
	var get *ssa.Function
	for _, fn := range c.P.LibFuncs {
		if fn.Synthetic == "" && isResultCacheMethod(fn, "Get") {
			get = fn
		}
	}
	if get == nil {
		c.R.Fail("coverage-lost", rule, "ResultCache.Get", "-", "-", "(parsley.ResultCache).Get not found")
		return
	}
	fn := c.name(get)
	L := ownParam(get, "data", "IntMap")
	if L == nil {
		c.R.Undecided(rule, fn+" shape", fn, c.P.Pos(get.Pos()), "Get has no unique context parameter")
		return
	}
	// the entry: a comma-ok map lookup yielding *Result
	var entry, found ssa.Value
	for _, b := range get.Blocks {
		for _, in := range b.Instrs {
			if lk, ok := in.(*ssa.Lookup); ok && lk.CommaOk {
				if ptr, isPtr := lk.Type().(*types.Tuple).At(0).Type().(*types.Pointer); isPtr && ssax.NamedIs(ptr.Elem(), "parsley", "Result") {
					for _, e := range ssax.Extracts(lk, 0) {
						entry = e
					}
					for _, e := range ssax.Extracts(lk, 1) {
						found = e
					}
				}
			}
		}
	}
	// every comma-ok lookup on the way to the entry (a two-level cache may test each level): a false outcome of any
	// of them means "no entry"
	lookupFlags := map[ssa.Value]bool{}
	for _, b := range get.Blocks {
		for _, in := range b.Instrs {
			if lk, ok := in.(*ssa.Lookup); ok && lk.CommaOk {
				if _, isMap := lk.X.Type().Underlying().(*types.Map); isMap {
					for _, e := range ssax.Extracts(lk, 1) {
						lookupFlags[e] = true
					}
				}
			}
		}
	}
	if entry == nil || found == nil {
		c.R.Undecided(rule, fn+" shape", fn, c.P.Pos(get.Pos()), "Get does not look the entry up with a comma-ok map access yielding *Result")
		return
	}
	isEntry := func(v ssa.Value) bool {
		for _, l := range ssax.Leaves(v) {
			if l != entry && !ssax.IsNilConst(l) {
				return false
			}
		}
		return true
	}
	isStored := func(v ssa.Value) bool {
		base, name, isLoad := fieldLoad(ssax.Strip(v))
		return isLoad && name == "LeftRecCtx" && isEntry(base)
	}
	isCurrent := func(v ssa.Value) bool { return ssax.Strip(v) == ssa.Value(L) }
	info := c.coversSites(get, isStored, isCurrent, func(v ssa.Value) bool { return ssax.Strip(v) == entry }, 0)
	if len(info.problems) > 0 {
		at := c.P.Pos(get.Pos())
		if info.probAt != nil {
			at = c.P.InstrPos(info.probAt)
		}
		c.R.Violation(rule, fn+" reuse test", fn, at, info.problems[0])
		return
	}
	if len(info.sites) == 0 {
		c.R.Undecided(rule, fn+" reuse test", fn, c.P.Pos(get.Pos()), "no comparison of stored and current counters was found in Get or in a helper it calls")
		return
	}
	for _, s := range info.sites {
		c.R.Hold(rule, fn+" reuse test @"+c.P.InstrPos(s.pos), "stored counter against current counter for every key of the stored context")
	}
	// every path
	type finding struct{ key, at, msg string }
	var bad []finding
	seenBad := map[string]bool{}
	hits, misses := 0, 0
	ok := walkPaths(get, isReturn, func(p *pathState, in ssa.Instruction) {
		r := in.(*ssa.Return)
		if len(r.Results) != 2 {
			return
		}
		add := func(key, msg string) {
			k := key + "@" + c.P.InstrPos(r)
			if !seenBad[k] {
				seenBad[k] = true
				bad = append(bad, finding{key, c.P.InstrPos(r), msg})
			}
		}
		hit, known := boolOnPath(p, r.Results[1])
		if !known {
			add("undecided", "")
			return
		}
		v := info.verdict(p)
		fv, fknown := p.bools[found]
		if hit {
			hits++
			if ssax.Strip(p.resolve(r.Results[0])) != entry {
				add("hit returns other value", "on success Get returns something else than the looked-up entry")
			}
			if !(fknown && fv) || v.viol || !v.exhausted {
				add("hit without reuse test", fmt.Sprintf("a path returns a hit without 'entry found' (%v), 'every stored counter compared' (%v) and 'no stored counter above the current one' (%v) all established: results are reused in contexts they are not valid for", fknown && fv, v.exhausted, !v.viol))
			}
		} else {
			misses++
			noEntry := fknown && !fv
			for _, ev := range p.events {
				if lookupFlags[ev.cond] && !ev.truth {
					noEntry = true
				}
			}
			if !noEntry && !v.viol {
				add("miss without cause", "a path reports a miss although the entry exists and no stored counter exceeds the current one: the wrapped parser runs again at a position it has already been run at")
			}
		}
	})
	if !ok {
		c.R.Undecided(rule, fn+" paths", fn, c.P.Pos(get.Pos()), "path budget exhausted")
		return
	}
	for _, b := range bad {
		if b.key == "undecided" {
			c.R.Undecided(rule, fn+" non-constant found result", fn, b.at, "Get returns a `found` flag whose value on this path is not decided by the tests taken")
			continue
		}
		c.R.Violation(rule, fn+" "+b.key, fn, b.at, b.msg)
	}
	if len(bad) == 0 {
		if hits == 0 {
			c.R.Violation(rule, fn+" never hits", fn, c.P.Pos(get.Pos()), "no path of Get returns a hit")
			return
		}
		c.R.Hold(rule, fn+" hit paths", fmt.Sprintf("every path ending in a hit (%d) found the entry, visited every stored key and saw no stored counter above the current one", hits))
		c.R.Hold(rule, fn+" miss paths", fmt.Sprintf("every path ending in a miss (%d) had no entry or saw a stored counter above the current one", misses))
	}
}

// loopHeaderOf returns the outermost block of the natural loop containing b (b itself if none).
func loopHeaderOf(b *ssa.BasicBlock) *ssa.BasicBlock {
	h := b
	for _, x := range b.Parent().Blocks {
		if x.Dominates(b) && ssax.Reaches(b, x, false) && x.Dominates(h) {
			h = x
		}
	}
	return h
}

// coversByEach recognises the reuse test written with the map's own iterator:
//
//	ok := true; stored.Each(func(key, count int) { if count > current.Get(key) { ok = false } }); return ok
//
// IntMap.Each visits every entry, the callback compares the entry's value with the current counter under the same key
// and can only move the flag away from its initial value. Returns the value meaning "reusable".
func (c *Ctx) coversByEach(h *ssa.Function, isStored, isCurrent func(ssa.Value) bool) (acceptOn bool, recognised bool, why string) {
	for _, call := range ssax.Calls(h) {
		ec, ok := isStaticMethod(callValue(call), "data", "IntMap", "Each")
		if !ok || len(ec.Call.Args) != 2 || !isStored(ec.Call.Args[0]) {
			continue
		}
		mc, ok := ec.Call.Args[1].(*ssa.MakeClosure)
		if !ok {
			continue
		}
		g := mc.Fn.(*ssa.Function)
		if len(g.Params) != 2 {
			continue
		}
		recognised = true
		key, count := ssa.Value(g.Params[0]), ssa.Value(g.Params[1])
		// the flag: the single captured bool the callback stores a constant into
		var flagFV *ssa.FreeVar
		var stored *ssa.Const
		var storeBlock *ssa.BasicBlock
		for _, b := range g.Blocks {
			for _, in := range b.Instrs {
				switch x := in.(type) {
				case *ssa.Store:
					fv, isFV := x.Addr.(*ssa.FreeVar)
					k, isC := x.Val.(*ssa.Const)
					if !isFV || !isC || flagFV != nil {
						return false, true, "the callback writes more than one constant flag"
					}
					flagFV, stored, storeBlock = fv, k, b
				case *ssa.MapUpdate, *ssa.Go, *ssa.Defer, *ssa.Send, *ssa.Panic:
					return false, true, "the callback has other effects"
				}
			}
		}
		if flagFV == nil {
			return false, true, "the callback records nothing"
		}
		setTo, isB := ssax.ConstBool(stored)
		if !isB {
			return false, true, "the flag is not a bool"
		}
		// governed by exactly: stored value > current.Get(key)
		conds := ssax.DominatingConds(storeBlock)
		if len(conds) != 1 {
			return false, true, "the flag is set under more than one condition"
		}
		op, x, y, isCmp := ssax.CmpOp(conds[0].Val)
		if !isCmp {
			return false, true, "the flag is not set under a comparison of counters"
		}
		if !conds[0].Truth {
			op = ssax.Negate(op)
		}
		isCur := func(v ssa.Value) bool {
			gc, ok := isStaticMethod(v, "data", "IntMap", "Get")
			if !ok || gc.Call.Args[1] != key {
				return false
			}
			// the current context as the callback sees it: a captured variable bound to the helper's value
			if u, ok := gc.Call.Args[0].(*ssa.UnOp); ok {
				if fv, ok := u.X.(*ssa.FreeVar); ok {
					for i, f := range g.FreeVars {
						if f == fv && i < len(mc.Bindings) {
							if al, ok := mc.Bindings[i].(*ssa.Alloc); ok && al.Referrers() != nil {
								for _, r := range *al.Referrers() {
									if st, ok := r.(*ssa.Store); ok && st.Addr == ssa.Value(al) && isCurrent(st.Val) {
										return true
									}
								}
							}
						}
					}
				}
			}
			return false
		}
		switch {
		case x == count && isCur(y):
		case y == count && isCur(x):
			op = ssax.Swap(op)
		default:
			return false, true, "the callback does not compare the stored counter with the current one under the same key"
		}
		if op != token.GTR && op != token.GEQ {
			return false, true, "the flag is set when the stored counter is " + op.String() + " the current one; it must be set when it exceeds it"
		}
		// the helper: flag initialised with the opposite constant, returned after Each
		var flagAlloc *ssa.Alloc
		for i, f := range g.FreeVars {
			if f == flagFV && i < len(mc.Bindings) {
				flagAlloc, _ = mc.Bindings[i].(*ssa.Alloc)
			}
		}
		if flagAlloc == nil || flagAlloc.Referrers() == nil {
			return false, true, "the flag is not a local of the helper"
		}
		initOK := false
		for _, r := range *flagAlloc.Referrers() {
			if st, ok := r.(*ssa.Store); ok && st.Addr == ssa.Value(flagAlloc) {
				if k, isB := ssax.ConstBool(st.Val); isB && k == !setTo && st.Block().Dominates(ec.Block()) {
					initOK = true
				} else {
					return false, true, "the flag is written elsewhere in the helper"
				}
			}
		}
		if !initOK {
			return false, true, "the flag is not initialised before the iteration"
		}
		for _, r := range ssax.Returns(h) {
			u, ok := r.Results[0].(*ssa.UnOp)
			if !ok || u.X != ssa.Value(flagAlloc) || !(ec.Block() == r.Block() || ec.Block().Dominates(r.Block())) {
				return false, true, "the helper does not return the flag after the iteration"
			}
		}
		return !setTo, true, ""
	}
	return false, false, ""
}
