package rules

import (
	"fmt"
	"go/token"
	"go/types"

	"golang.org/x/tools/go/ssa"

	"pv/internal/report"
	"pv/internal/ssax"
)

func init() {
	register(&Property{ID: "C13", Run: runC13, Meta: report.Meta{ID: "C13",
		Explanation: "DECIDED (for every tree shape, given that Children() returns the children — A-user for foreign node types): the structure of the four small recursive passes. R13a (decided over the enumerated paths of Walk and of any helper it hands the children to, so the way the traversal is written does not matter) parsley.Walk calls the callback exactly once, on its own node, after the children: the NonTerminalNode branch ranges over Children() and recurses with Walk(child, f) (Walk itself, not f), the Walkable branch delegates to n.Walk(f), a true result of either returns true at once without reaching f(node), and every library Walkable passes the callback on to parsley.Walk instead of invoking it; R13b parsley.StaticCheck walks with a callback that stores the first error and returns true exactly then; R13c NonTerminalNode.StaticCheck calls the interpreter's checker with the receiver whenever the interpreter is a StaticChecker (no other condition) and stores the returned schema only behind err == nil; R13d NonTerminalNode.Transform delegates to the interpreter's TransformNode(userCtx, receiver) when it has one and otherwise returns the receiver only after the loop that stores parsley.Transform(userCtx, child) back at the child's index, returning (nil, err) on the first error; parsley.Transform delegates to Transformable or returns its argument; R13e NonTerminalNode.Value hands the interpreter exactly the receiver. NOT DECIDED: foreign node types' Children()/Walk implementations.",
		Assumptions: commonAssumptions, TrustedBase: commonTrusted}})
}

func runC13(c *Ctx) {
	c.U0()
	c.ruleR13a("R13a walk-post-order-once")
	c.ruleR13b("R13b static-check-first-error")
	c.ruleR13c("R13c schema-recorded")
	c.ruleR13d("R13d transform")
	c.ruleR13e("R13e value-gets-own-node")
}

func retTrueOnly(b *ssa.BasicBlock) bool {
	if len(b.Instrs) == 0 {
		return false
	}
	r, ok := b.Instrs[len(b.Instrs)-1].(*ssa.Return)
	if !ok || len(r.Results) != 1 {
		return false
	}
	v, isC := ssax.ConstBool(r.Results[0])
	if !isC || !v {
		return false
	}
	for _, in := range b.Instrs[:len(b.Instrs)-1] {
		if _, isCall := in.(ssa.CallInstruction); isCall {
			return false
		}
	}
	return true
}

// ifTrueReturnsTrue: the value v is the condition of the If ending its block and the true successor returns true.
func ifTrueReturnsTrue(v ssa.Value) bool {
	in, ok := v.(ssa.Instruction)
	if !ok {
		return false
	}
	b := in.Block()
	ifi, ok := b.Instrs[len(b.Instrs)-1].(*ssa.If)
	if !ok || ifi.Cond != v {
		return false
	}
	return retTrueOnly(b.Succs[0])
}

func (c *Ctx) ruleR13a(rule string) {
	c.R.Rule(rule, "Walk: f called once on the own node after the children; recursion through Walk(child, f); Walkable delegation; immediate return true on abort; library Walkables pass f on to parsley.Walk", 4)
	fn := c.P.Func("parsley.Walk")
	if fn == nil || len(fn.Params) != 2 {
		c.R.Fail("coverage-lost", rule, "parsley.Walk", "-", "-", "parsley.Walk(node, f) not found")
		return
	}
	c.walkByPaths(rule, fn)
	// library Walkables
	wi := c.lookupIface("parsley", "Walkable")
	for _, g := range c.P.LibFuncs {
		if g.Synthetic != "" || g.Name() != "Walk" || g.Signature.Recv() == nil || wi == nil {
			continue
		}
		if !types.Implements(g.Signature.Recv().Type(), wi) || len(g.Params) != 2 {
			continue
		}
		cb := g.Params[1]
		good := true
		why := ""
		passed := 0
		if cb.Referrers() != nil {
			for _, r := range *cb.Referrers() {
				switch x := r.(type) {
				case *ssa.Call:
					if x.Call.Value == cb {
						good = false
						why = "invokes the callback directly instead of passing it to parsley.Walk: the element's descendants are skipped and early abort inside the subtree is lost"
					} else if x.Call.StaticCallee() == fn {
						passed++
						// its result must be returned
						for _, ret := range ssax.Returns(g) {
							_ = ret
						}
					}
				case *ssa.DebugRef:
				default:
					good = false
					why = "lets the callback escape"
				}
			}
		}
		if good && passed == 0 {
			good = false
			why = "never walks anything"
		}
		if good {
			c.R.Hold(rule, c.name(g), "passes the callback on to parsley.Walk")
		} else {
			c.R.Violation(rule, c.name(g)+" walkable", c.name(g), c.P.Pos(g.Pos()), "library Walkable "+why)
		}
	}
}

// isFullRangeIndex: idx is the rotated range-loop index t = phi(-1, t)+1 compared with len(of).
func isFullRangeIndex(idx ssa.Value, of ssa.Value) bool {
	b, ok := idx.(*ssa.BinOp)
	if !ok || b.Op != token.ADD {
		return false
	}
	one, isC := ssax.ConstInt(b.Y)
	phi, isP := b.X.(*ssa.Phi)
	if !isC || one != 1 || !isP {
		return false
	}
	start := false
	loop := false
	for _, e := range phi.Edges {
		if k, ok := ssax.ConstInt(e); ok && k == -1 {
			start = true
		}
		if e == idx {
			loop = true
		}
	}
	if !start || !loop || b.Referrers() == nil {
		return false
	}
	for _, r := range *b.Referrers() {
		if cmp, ok := r.(*ssa.BinOp); ok && cmp.Op == token.LSS && cmp.X == idx {
			if l, ok := cmp.Y.(*ssa.Call); ok {
				if bi, ok := l.Call.Value.(*ssa.Builtin); ok && bi.Name() == "len" && l.Call.Args[0] == of {
					return true
				}
			}
		}
	}
	return false
}

func (c *Ctx) ruleR13b(rule string) {
	c.R.Rule(rule, "parsley.StaticCheck = Walk(node, g) where g stores the first checker error into the returned variable and returns true exactly then", 1)
	fn := c.P.Func("parsley.StaticCheck")
	walk := c.P.Func("parsley.Walk")
	if fn == nil || walk == nil {
		c.R.Fail("coverage-lost", rule, "parsley.StaticCheck", "-", "-", "function not found")
		return
	}
	var wc *ssa.Call
	for _, call := range ssax.Calls(fn) {
		if cl, ok := call.(*ssa.Call); ok && cl.Call.StaticCallee() == walk {
			wc = cl
		}
	}
	if wc == nil || wc.Call.Args[0] != ssa.Value(fn.Params[1]) {
		c.R.Violation(rule, "parsley.StaticCheck walk", "parsley.StaticCheck", c.P.Pos(fn.Pos()), "StaticCheck does not Walk its own node: checkers do not run bottom-up over the whole tree")
		return
	}
	mc, ok := wc.Call.Args[1].(*ssa.MakeClosure)
	if !ok {
		c.R.Undecided(rule, "parsley.StaticCheck callback", "parsley.StaticCheck", c.P.InstrPos(wc), "callback is not a closure literal")
		return
	}
	g := mc.Fn.(*ssa.Function)
	// the callback: a closure literal writing a captured variable, or a method value of a helper object writing a field
	var recv *ssa.Parameter
	nodeParam := ssa.Value(nil)
	if g.Synthetic != "" && len(mc.Bindings) == 1 {
		var m *ssa.Function
		for _, call := range ssax.Calls(g) {
			if sc := call.Common().StaticCallee(); sc != nil && c.P.InLib(sc) && sc.Signature.Recv() != nil {
				m = sc
			}
		}
		if m == nil || len(m.Params) != 2 {
			c.R.Undecided(rule, "parsley.StaticCheck callback", "parsley.StaticCheck", c.P.InstrPos(wc), "the method value handed to Walk could not be resolved to a library method")
			return
		}
		g, recv = m, m.Params[0]
	}
	if len(g.Params) == 0 {
		c.R.Undecided(rule, "parsley.StaticCheck callback", "parsley.StaticCheck", c.P.InstrPos(wc), "callback without parameter")
		return
	}
	nodeParam = g.Params[len(g.Params)-1]
	// where StaticCheck reads its result from: a local variable, or a field of the helper object
	var retLoc ssa.Value
	retField := -1
	for _, r := range ssax.Returns(fn) {
		if u, ok := r.Results[0].(*ssa.UnOp); ok && u.Op == token.MUL {
			switch a := u.X.(type) {
			case *ssa.Alloc:
				retLoc = a
			case *ssa.FieldAddr:
				retLoc, retField = a.X, a.Field
			}
		}
	}
	// the same location as the callback sees it
	isErrAddr := func(addr ssa.Value) bool { return false }
	if retLoc != nil && recv == nil && retField < 0 {
		for i, b := range mc.Bindings {
			if b == retLoc && i < len(g.FreeVars) {
				fv := g.FreeVars[i]
				isErrAddr = func(addr ssa.Value) bool { return addr == ssa.Value(fv) }
			}
		}
	}
	if retLoc != nil && recv != nil && retField >= 0 && mc.Bindings[0] == retLoc {
		isErrAddr = func(addr ssa.Value) bool {
			fa, ok := addr.(*ssa.FieldAddr)
			return ok && fa.X == ssa.Value(recv) && fa.Field == retField
		}
	}
	// in g: the invoke StaticCheck(userCtx) on the parameter
	var sc *ssa.Call
	for _, call := range ssax.Calls(g) {
		if cl, ok := call.(*ssa.Call); ok && cl.Call.IsInvoke() && cl.Call.Method.Name() == "StaticCheck" {
			sc = cl
		}
	}
	good := sc != nil
	if good {
		e, ok := sc.Call.Value.(*ssa.Extract)
		good = ok
		if ok {
			ta, ok := e.Tuple.(*ssa.TypeAssert)
			good = ok && ta.X == nodeParam
		}
	}
	if !good {
		c.R.Violation(rule, "StaticCheck callback target", c.name(g), c.P.Pos(g.Pos()), "the callback does not run StaticCheck on the visited node itself")
		return
	}
	// the callback writes the checker's error to the location StaticCheck returns
	writes := false
	for _, b := range g.Blocks {
		for _, in := range b.Instrs {
			if st, ok := in.(*ssa.Store); ok && isErrAddr(st.Addr) {
				writes = true
			}
		}
	}
	if !writes {
		c.R.Violation(rule, "parsley.StaticCheck result variable", "parsley.StaticCheck", c.P.Pos(fn.Pos()), "StaticCheck does not return the variable its callback writes: the first error is lost")
		return
	}
	// path-sensitive: on every path, the callback returns true exactly when the checker returned an error, and that
	// error has been stored on the path
	var storeBlocks []*ssa.BasicBlock
	for _, b := range g.Blocks {
		for _, in := range b.Instrs {
			if st, ok := in.(*ssa.Store); ok && isErrAddr(st.Addr) && st.Val == ssa.Value(sc) {
				storeBlocks = append(storeBlocks, b)
			}
		}
	}
	reported := map[string]bool{}
	walkPaths(g, isReturn, func(p *pathState, in ssa.Instruction) {
		r := in.(*ssa.Return)
		k, isC := ssax.ConstBool(p.resolve(r.Results[0]))
		if !isC {
			if !reported["computed"] {
				reported["computed"] = true
				good = false
				c.R.Violation(rule, "StaticCheck callback result", c.name(g), c.P.InstrPos(r), "callback returns a computed value; expected true exactly on error")
			}
			return
		}
		// was the checker called on this path, and what do we know about its error?
		called := false
		stored := false
		for _, b := range p.trace {
			if b == sc.Block() {
				called = true
			}
			for _, sb := range storeBlocks {
				if b == sb {
					stored = true
				}
			}
		}
		errState := nsNil
		if called {
			errState = p.eval(sc)
		}
		switch {
		case k && !(errState == nsNonNil && stored):
			if !reported["abort"] {
				reported["abort"] = true
				good = false
				c.R.Violation(rule, "StaticCheck abort without error", c.name(g), c.P.InstrPos(r), "the callback aborts the walk (returns true) on a path where no checker error was stored: nodes are skipped, or the error is not reported")
			}
		case !k && errState != nsNil:
			if !reported["continue"] {
				reported["continue"] = true
				good = false
				c.R.Violation(rule, "StaticCheck continues after error", c.name(g), c.P.InstrPos(r), "the callback continues the walk (returns false) on a path where the checker may have returned an error: later nodes are checked against a failed child, and a later error replaces the first")
			}
		}
	})
	if good {
		c.R.Hold(rule, "parsley.StaticCheck", "Walk(node, g); g stores the error and returns true exactly on error")
	}
}

// guardVocabulary returns the dominating conditions of b that are not among the allowed ones.
func foreignGuards(b *ssa.BasicBlock, allowed func(ssax.Cond) bool) []ssax.Cond {
	var out []ssax.Cond
	for _, cd := range ssax.DominatingConds(b) {
		if !allowed(cd) {
			out = append(out, cd)
		}
	}
	return out
}

func (c *Ctx) ruleR13c(rule string) {
	c.R.Rule(rule, "NonTerminalNode.StaticCheck: checker called with the receiver under no condition but 'interpreter is a StaticChecker'; schema stored behind err == nil from the call's first result", 2)
	fn := c.P.Func("(*ast.NonTerminalNode).StaticCheck")
	if fn == nil {
		c.R.Fail("coverage-lost", rule, "(*ast.NonTerminalNode).StaticCheck", "-", "-", "method not found")
		return
	}
	name := c.name(fn)
	recv := fn.Params[0]
	var sc *ssa.Call
	for _, call := range ssax.Calls(fn) {
		if cl, ok := call.(*ssa.Call); ok && cl.Call.IsInvoke() && cl.Call.Method.Name() == "StaticCheck" {
			sc = cl
		}
	}
	if sc == nil {
		c.R.Violation(rule, name+" no checker call", name, c.P.Pos(fn.Pos()), "the interpreter's StaticCheck is never called")
		return
	}
	if len(sc.Call.Args) != 2 || ssax.Strip(sc.Call.Args[1]) != ssa.Value(recv) {
		c.R.Violation(rule, name+" checker argument", name, c.P.InstrPos(sc), "the checker is not handed the receiver node")
	}
	bad := foreignGuards(sc.Block(), func(cd ssax.Cond) bool {
		return c.aboutInterpreterOnly(cd.Val, 0)
	})
	if len(bad) > 0 {
		c.R.Violation(rule, name+" checker guarded", name, c.P.InstrPos(sc), fmt.Sprintf("the checker call is skipped under a condition other than 'the interpreter is a StaticChecker' (%s): on a repeated or partial pass nodes keep stale schemas and errors are not reported", bad[0].Val.String()))
	} else {
		c.R.Hold(rule, name+" checker call @"+c.P.InstrPos(sc), "receiver passed; guarded only by interpreter != nil / type switch")
	}
	// the schema store
	n := 0
	for _, b := range fn.Blocks {
		for _, in := range b.Instrs {
			st, ok := in.(*ssa.Store)
			if !ok {
				continue
			}
			fa, ok := st.Addr.(*ssa.FieldAddr)
			if !ok || fieldVar(fa) == nil || fieldVar(fa).Name() != c.model().NTSchema {
				continue
			}
			n++
			okVal := isExtractOf(st.Val, sc, 0) && fa.X == ssa.Value(recv)
			okGuard := false
			for _, cd := range ssax.DominatingConds(b) {
				if x, nilIfTrue, isNT := nilTest(cd.Val); isNT && isExtractOf(x, sc, 1) && cd.Truth == nilIfTrue {
					okGuard = true
				}
			}
			if okVal && okGuard {
				c.R.Hold(rule, name+" schema store @"+c.P.InstrPos(st), "= checker result 0, behind err == nil")
			} else {
				c.R.Violation(rule, name+" schema store", name, c.P.InstrPos(st), "the schema is recorded from another value than the checker's result, or not only when the checker returned no error")
			}
		}
	}
	if n == 0 {
		c.R.Violation(rule, name+" schema never stored", name, c.P.Pos(fn.Pos()), "the checker's schema is not recorded on the node")
	}
}

func (c *Ctx) ruleR13d(rule string) {
	c.R.Rule(rule, "Transform: interpreter's TransformNode(userCtx, receiver) when available; otherwise the receiver is returned only after the loop storing parsley.Transform(userCtx, child) at the child's index; first error aborts; parsley.Transform delegates or returns its argument", 4)
	fn := c.P.Func("(*ast.NonTerminalNode).Transform")
	pt := c.P.Func("parsley.Transform")
	if fn == nil || pt == nil {
		c.R.Fail("coverage-lost", rule, "Transform", "-", "-", "functions not found")
		return
	}
	name := c.name(fn)
	recv, uctx := fn.Params[0], fn.Params[1]
	var tn *ssa.Call
	var loopCalls []*ssa.Call
	for _, call := range ssax.Calls(fn) {
		cl, ok := call.(*ssa.Call)
		if !ok {
			continue
		}
		if cl.Call.IsInvoke() && cl.Call.Method.Name() == "TransformNode" {
			tn = cl
		}
		if cl.Call.StaticCallee() == pt {
			loopCalls = append(loopCalls, cl)
		}
	}
	if tn == nil || len(tn.Call.Args) != 2 || tn.Call.Args[0] != ssa.Value(uctx) || ssax.Strip(tn.Call.Args[1]) != ssa.Value(recv) {
		c.R.Violation(rule, name+" transformer delegation", name, c.P.Pos(fn.Pos()), "the node's own transformer is not called as TransformNode(userCtx, receiver)")
	} else {
		c.R.Hold(rule, name+" -> TransformNode @"+c.P.InstrPos(tn), "(userCtx, receiver)")
	}
	// the loop over the children: in Transform itself, or in a helper that is handed the receiver and the user context
	lcFn := fn
	recvL, uctxL := ssa.Value(recv), ssa.Value(uctx)
	var hc *ssa.Call
	if len(loopCalls) == 0 {
		for _, call := range ssax.Calls(fn) {
			k, ok := call.(*ssa.Call)
			if !ok || k.Call.IsInvoke() {
				continue
			}
			h := k.Call.StaticCallee()
			if h == nil || !c.P.InLib(h) || len(h.Blocks) == 0 || h == fn {
				continue
			}
			var inner []*ssa.Call
			for _, c2 := range ssax.Calls(h) {
				if cl, ok := c2.(*ssa.Call); ok && cl.Call.StaticCallee() == pt {
					inner = append(inner, cl)
				}
			}
			if len(inner) == 0 {
				continue
			}
			var hr, hu ssa.Value
			for i, a := range k.Call.Args {
				if i >= len(h.Params) {
					break
				}
				if ssax.Strip(a) == ssa.Value(recv) {
					hr = h.Params[i]
				}
				if a == ssa.Value(uctx) {
					hu = h.Params[i]
				}
			}
			if hr == nil || hu == nil {
				continue
			}
			lcFn, recvL, uctxL, hc, loopCalls = h, hr, hu, k, inner
		}
	}
	if len(loopCalls) != 1 {
		c.R.Violation(rule, name+" child transformation", name, c.P.Pos(fn.Pos()), fmt.Sprintf("%d calls of parsley.Transform; expected one, in the loop over the children", len(loopCalls)))
		return
	}
	lname := c.name(lcFn)
	lc := loopCalls[0]
	// argument: element of n.children at the range index; result stored back at the same index of n.children
	okArg, okStore := false, false
	var idx ssa.Value
	isChildrenOfRecv := func(v ssa.Value) bool {
		base, f, ok := fieldLoad(v)
		return ok && f == c.model().NTChildren && base == recvL
	}
	if u, ok := lc.Call.Args[1].(*ssa.UnOp); ok && u.Op == token.MUL && lc.Call.Args[0] == uctxL {
		if ia, ok := u.X.(*ssa.IndexAddr); ok {
			if isChildrenOfRecv(ia.X) && (isFullRangeIndex(ia.Index, ia.X) || indexLoopOf(ia.Index, ia.X) != nil || fullRangeOverField(ia.Index, isChildrenOfRecv)) {
				okArg = true
				idx = ia.Index
			}
		}
	}
	for _, e := range ssax.Extracts(lc, 0) {
		if e.Referrers() == nil {
			continue
		}
		for _, r := range *e.Referrers() {
			if st, ok := r.(*ssa.Store); ok {
				if ia, ok := st.Addr.(*ssa.IndexAddr); ok && ia.Index == idx && isChildrenOfRecv(ia.X) {
					okStore = true
				}
			}
		}
	}
	if okArg && okStore {
		c.R.Hold(rule, lname+" child loop @"+c.P.InstrPos(lc), "children[i] = parsley.Transform(userCtx, children[i]) for every i")
	} else {
		c.R.Violation(rule, name+" child loop shape", lname, c.P.InstrPos(lc), fmt.Sprintf("the loop does not transform every child and store the result back at the same index (argument ok=%v, store ok=%v)", okArg, okStore))
	}
	// error abort: the loop's function returns the child's error at once; Transform turns it into (nil, err)
	errorReturned := func(g *ssa.Function, e ssa.Value, wantNilFirst bool) bool {
		for _, ret := range ssax.Returns(g) {
			last := ret.Results[len(ret.Results)-1]
			if ssax.Strip(last) != e {
				continue
			}
			if wantNilFirst && !(len(ret.Results) == 2 && ssax.IsNilConst(ret.Results[0])) {
				continue
			}
			for _, cd := range ssax.DominatingConds(ret.Block()) {
				if x, nilIfTrue, isNT := nilTest(cd.Val); isNT && x == e && cd.Truth != nilIfTrue {
					return true
				}
			}
		}
		return false
	}
	abort := false
	for _, e := range ssax.Extracts(lc, 1) {
		if errorReturned(lcFn, e, hc == nil) {
			abort = true
		}
	}
	delegated := false
	if hc != nil {
		// Transform hands the helper's pair on unchanged ...
		for _, r := range ssax.Returns(fn) {
			if len(r.Results) == 2 && isExtractOf(r.Results[0], hc, 0) && isExtractOf(r.Results[1], hc, 1) {
				delegated = true
			}
		}
	}
	if abort && hc != nil && delegated {
		// ... so the helper itself must return (nil, err)
		abort = false
		for _, e := range ssax.Extracts(lc, 1) {
			if errorReturned(lcFn, e, true) {
				abort = true
			}
		}
	} else if abort && hc != nil {
		// the helper's error reaches Transform's caller as (nil, err)
		abort = errorReturned(fn, hc, true)
	}
	if abort {
		c.R.Hold(rule, name+" error abort", "returns (nil, err) on the first child error")
	} else {
		c.R.Violation(rule, name+" error abort", name, c.P.InstrPos(lc), "a child's transformation error does not abort with (nil, err)")
	}
	// returning the receiver only after the loop
	loopHead := lc.Block()
	for _, b := range lcFn.Blocks {
		if b.Dominates(lc.Block()) && ssax.Reaches(lc.Block(), b, false) && b.Dominates(loopHead) {
			loopHead = b // the outermost block of the cycle: the loop header
		}
	}
	if hc != nil && delegated {
		// the helper returns the receiver (with a nil error) only after the loop
		for _, r := range ssax.Returns(lcFn) {
			if len(r.Results) != 2 || ssax.Strip(r.Results[0]) != recvL {
				continue
			}
			if loopHead.Dominates(r.Block()) && ssax.IsNilConst(r.Results[1]) {
				c.R.Hold(rule, lname+" return @"+c.P.InstrPos(r), "receiver returned after the child loop")
			} else {
				c.R.Violation(rule, name+" returns itself without transforming children", lname, c.P.InstrPos(r), "a path returns the node unchanged without passing through the loop over its children: descendants with their own transformers are not transformed and their errors are swallowed")
			}
		}
	} else if hc != nil {
		// in the helper a nil error is returned only after the loop
		for _, r := range ssax.Returns(lcFn) {
			last := r.Results[len(r.Results)-1]
			if !ssax.IsNilConst(ssax.Strip(last)) {
				continue
			}
			if !loopHead.Dominates(r.Block()) {
				c.R.Violation(rule, name+" returns itself without transforming children", lname, c.P.InstrPos(r), "the helper reports success on a path that does not pass through the loop over the children")
			}
		}
	}
	for _, r := range ssax.Returns(fn) {
		if ssax.Strip(r.Results[0]) != ssa.Value(recv) {
			continue
		}
		good := ssax.IsNilConst(r.Results[1])
		if hc == nil {
			good = good && loopHead.Dominates(r.Block())
		} else {
			passed := false
			for _, cd := range ssax.DominatingConds(r.Block()) {
				if x, nilIfTrue, isNT := nilTest(cd.Val); isNT && x == ssa.Value(hc) && cd.Truth == nilIfTrue {
					passed = true
				}
			}
			good = good && passed
		}
		if good {
			c.R.Hold(rule, name+" return @"+c.P.InstrPos(r), "receiver returned after the child loop")
		} else {
			c.R.Violation(rule, name+" returns itself without transforming children", name, c.P.InstrPos(r), "a path returns the node unchanged without passing through the loop over its children: descendants with their own transformers are not transformed and their errors are swallowed")
		}
	}
	// parsley.Transform
	okDeleg, okSelf := false, false
	for _, r := range ssax.Returns(pt) {
		if e, ok := r.Results[0].(*ssa.Extract); ok {
			if cl, ok := e.Tuple.(*ssa.Call); ok && cl.Call.IsInvoke() && cl.Call.Method.Name() == "Transform" && len(cl.Call.Args) == 1 && cl.Call.Args[0] == ssa.Value(pt.Params[0]) {
				if ve, ok := cl.Call.Value.(*ssa.Extract); ok {
					if ta, ok := ve.Tuple.(*ssa.TypeAssert); ok && ta.X == ssa.Value(pt.Params[1]) {
						okDeleg = true
					}
				}
			}
		}
		if r.Results[0] == ssa.Value(pt.Params[1]) && ssax.IsNilConst(r.Results[1]) {
			okSelf = true
		}
	}
	if okDeleg && okSelf {
		c.R.Hold(rule, "parsley.Transform", "delegates to Transformable.Transform(userCtx) or returns its argument")
	} else {
		c.R.Violation(rule, "parsley.Transform shape", "parsley.Transform", c.P.Pos(pt.Pos()), "parsley.Transform neither delegates to the node's Transform nor returns the node unchanged")
	}
}

func (c *Ctx) ruleR13e(rule string) {
	c.R.Rule(rule, "NonTerminalNode.Value calls interpreter.Eval(userCtx, receiver) and returns its results", 1)
	fn := c.P.Func("(*ast.NonTerminalNode).Value")
	if fn == nil {
		c.R.Fail("coverage-lost", rule, "(*ast.NonTerminalNode).Value", "-", "-", "method not found")
		return
	}
	name := c.name(fn)
	ok := false
	for _, call := range ssax.Calls(fn) {
		cl, isC := call.(*ssa.Call)
		if !isC || !cl.Call.IsInvoke() || cl.Call.Method.Name() != "Eval" {
			continue
		}
		_, f, isLoad := fieldLoad(cl.Call.Value)
		if isLoad && f == c.model().NTInterp && len(cl.Call.Args) == 2 && cl.Call.Args[0] == ssa.Value(fn.Params[1]) && ssax.Strip(cl.Call.Args[1]) == ssa.Value(fn.Params[0]) {
			for _, r := range ssax.Returns(fn) {
				if isExtractOf(r.Results[0], cl, 0) && isExtractOf(r.Results[1], cl, 1) {
					ok = true
				}
			}
		}
	}
	if ok {
		c.R.Hold(rule, name, "interpreter.Eval(userCtx, receiver), results returned")
	} else {
		c.R.Violation(rule, name+" eval", name, c.P.Pos(fn.Pos()), "evaluation does not hand the interpreter exactly this node and return its results")
	}
}

// aboutInterpreterOnly: the condition depends on nothing but the node's interpreter field — interpreter != nil, the
// comma-ok of a type assertion on it, or the result of a library helper that computes exactly such a thing.
func (c *Ctx) aboutInterpreterOnly(v ssa.Value, depth int) bool {
	if depth > 4 {
		return false
	}
	interp := c.model().NTInterp
	if x, _, isNT := nilTest(v); isNT {
		if _, f, ok := fieldLoad(x); ok && f == interp {
			return true
		}
		return c.aboutInterpreterOnly(x, depth+1)
	}
	switch x := v.(type) {
	case *ssa.Const:
		return true
	case *ssa.UnOp:
		if _, f, ok := fieldLoad(x); ok && f == interp {
			return true
		}
		if x.Op == token.NOT {
			return c.aboutInterpreterOnly(x.X, depth+1)
		}
	case *ssa.Phi:
		for _, e := range x.Edges {
			if !c.aboutInterpreterOnly(e, depth+1) {
				return false
			}
		}
		return true
	case *ssa.Extract:
		switch t := x.Tuple.(type) {
		case *ssa.TypeAssert:
			if _, f, ok := fieldLoad(t.X); ok && f == interp {
				return true
			}
		case *ssa.Call:
			h := t.Call.StaticCallee()
			if h == nil || !c.P.InLib(h) || len(h.Blocks) == 0 {
				return false
			}
			for _, r := range ssax.Returns(h) {
				if x.Index >= len(r.Results) || !c.aboutInterpreterOnly(r.Results[x.Index], depth+1) {
					return false
				}
			}
			// and the helper has no effects
			for _, b := range h.Blocks {
				for _, in := range b.Instrs {
					switch in.(type) {
					case *ssa.Store, *ssa.MapUpdate, *ssa.Call, *ssa.Go, *ssa.Defer:
						return false
					}
				}
			}
			return true
		}
	case *ssa.TypeAssert:
		if _, f, ok := fieldLoad(x.X); ok && f == interp {
			return true
		}
	}
	return false
}

// fullRangeOverField: idx is the index of a rotated range loop (phi(-1, idx) + 1 tested against len(x)) where x is
// another load of the same field the indexed slice was loaded from.
func fullRangeOverField(idx ssa.Value, isField func(ssa.Value) bool) bool {
	b, ok := idx.(*ssa.BinOp)
	if !ok || b.Op != token.ADD || b.Referrers() == nil {
		return false
	}
	one, isC := ssax.ConstInt(b.Y)
	phi, isP := b.X.(*ssa.Phi)
	if !isC || one != 1 || !isP {
		return false
	}
	start, loop := false, false
	for _, e := range phi.Edges {
		if k, ok := ssax.ConstInt(e); ok && k == -1 {
			start = true
		}
		if e == idx {
			loop = true
		}
	}
	if !start || !loop {
		return false
	}
	for _, r := range *b.Referrers() {
		if cmp, ok := r.(*ssa.BinOp); ok && cmp.Op == token.LSS && cmp.X == idx {
			if l, ok := cmp.Y.(*ssa.Call); ok {
				if bi, ok := l.Call.Value.(*ssa.Builtin); ok && bi.Name() == "len" && isField(l.Call.Args[0]) {
					return true
				}
			}
		}
	}
	return false
}
