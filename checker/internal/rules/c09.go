package rules

import (
	"fmt"
	"go/constant"
	"go/token"
	"go/types"
	"strings"

	"golang.org/x/tools/go/ssa"

	"pv/internal/lin"
	"pv/internal/load"
	"pv/internal/own"
	"pv/internal/report"
	"pv/internal/ssax"
)

func init() {
	register(&Property{ID: "C09", Run: runC09, Meta: report.Meta{ID: "C09",
		Explanation: "DECIDED (for all file contents, base offsets and positions inside the file — A-domain — at once): the safety half of the statement. R09a every index and slice expression in the text reader's primitives is in bounds, proven from the dominating guards, the invariant File.len = len(File.data), one-step induction on loop variables and the library contracts of regexp/utf8 (Fourier–Motzkin refutation of the negated obligation; an unproven obligation fails the check). R09b every return of a matching primitive is either the original position together with the no-match value, or File.Pos(c) with 0 <= c <= File.len proven. W0 the file's content, length and line table have no writer but the constructor (resp. the lazily-called setLines), the reader's file pointer none but NewReader: repeated reads are one value. R09c the regexp cache compiles '^(?:' + expr + ')' (anchored at the cursor as a whole, not only in its first alternative), keys reads and writes by that same expr, and rejects expressions matching the empty input. R09d Remaining is File.len - (pos - offset) and IsEOF is pos - offset >= File.len as linear forms (byte units on both sides). R09e the byte after a word rejects the match iff it is [A-Za-z0-9_] (256-value folding). R09f a rune is narrowed to 8 bits — compared with ONE input byte — only under facts proving it < 0x80. NOT DECIDED: agreement of each primitive's result with a byte-level specification of WHAT is matched, for every content.",
		Assumptions: append([]string{"A-domain: positions passed to reader primitives satisfy offset <= pos <= offset+len; constructor arguments lie in their documented domains (non-empty ASCII words, valid regexps, valid group indexes)", "A-lib: contracts of regexp.FindIndex/FindSubmatch, utf8.DecodeRune, sort.Search used as axioms"}, commonAssumptions...), TrustedBase: commonTrusted}})
}

func runC09(c *Ctx) {
	c.U0()
	c.ruleW0("W0 file-content-immutable")
	c.ruleR09a("R09a accesses-in-bounds", c.readerFns(), 8)
	c.ruleR09b("R09b returned-positions")
	c.ruleR09c("R09c anchored-consistently-keyed-regexps")
	c.ruleR09d("R09d remaining-and-eof-linear-form")
	c.ruleR09e("R09e word-boundary-alphabet")
	c.ruleR09f("R09f rune-narrowing-only-for-ascii")
}

// readerFns: the methods of *text.Reader.
func (c *Ctx) readerFns() []*ssa.Function {
	var out []*ssa.Function
	for _, fn := range c.P.LibFuncs {
		if fn.Synthetic != "" || fn.Signature.Recv() == nil {
			continue
		}
		if ssax.PtrNamedIs(fn.Signature.Recv().Type(), "text", "Reader") {
			out = append(out, fn)
		}
	}
	return out
}

func (c *Ctx) linFn(fn *ssa.Function) *lin.Fn {
	m := c.model()
	written := c.fieldsWritten(fn)
	// a field path read several times is one value when neither the function nor its callees store to a field of
	// that name in memory they did not allocate (W0 licenses this for the file's content)
	immutable := func(p string) bool {
		if strings.HasPrefix(p, "^") || !strings.Contains(p, ".") {
			return true
		}
		last := p[strings.LastIndex(p, ".")+1:]
		return !written[last]
	}
	lf := lin.New(fn, immutable)
	lf.Sub = func(g *ssa.Function) *lin.Fn {
		if c.linDepth > 3 {
			return nil
		}
		c.linDepth++
		defer func() { c.linDepth-- }()
		return c.linFn(g)
	}
	if m.ok {
		lf.DataSuffix = "." + m.ReaderFile + "." + m.Data
		lf.LenSuffix = "." + m.ReaderFile + "." + m.Len
	}
	defer lf.Prepare() // after the domain axioms: loop induction uses them
	// A-domain for reader primitives: the cursor of a position parameter lies within the file
	if m.ok && fn.Signature.Recv() != nil && ssax.PtrNamedIs(fn.Signature.Recv().Type(), "text", "Reader") {
		r := fn.Params[0].Name()
		off, ln := c.offsetAtom(r), c.lenAtom(r)
		for _, p := range fn.Params[1:] {
			if ssax.NamedIs(p.Type(), "parsley", "Pos") {
				cur := lin.Atom(p.Name()).Sub(lin.Atom(off))
				lf.Axioms = append(lf.Axioms,
					lin.Ge(cur, lin.Const(0), "A-domain: "+p.Name()+" >= file offset"),
					lin.Ge(lin.Atom(ln), cur, "A-domain: "+p.Name()+" <= end of file"),
					lin.Ge(lin.Atom(ln), lin.Const(0), "File.len = len(File.data) >= 0"))
			}
		}
	}
	// preconditions of a private helper: bounds on its integer parameters proven at every call site
	for _, ax := range c.paramPreconds(fn) {
		lf.Axioms = append(lf.Axioms, ax)
	}
	return lf
}

type preCand struct {
	param  int
	upper  bool // param <= receiver's file length; else param >= 0
	strict bool // with upper: param < receiver's file length
}

// paramPreconds: for an unexported library function all of whose callers are static calls in the library, the
// candidate bounds (p >= 0, p <= File.len of the receiver's file) that hold at every call site, proven there with the
// caller's own facts (assume/guarantee; recursion is cut by treating a function under analysis as having none).
func (c *Ctx) paramPreconds(fn *ssa.Function) []lin.Cons {
	if c.preCache == nil {
		c.preCache = map[*ssa.Function][]preCand{}
		c.preBusy = map[*ssa.Function]bool{}
	}
	mk := func(pcs []preCand) []lin.Cons {
		var out []lin.Cons
		for _, pc := range pcs {
			p := fn.Params[pc.param]
			if pc.upper && pc.strict {
				out = append(out, lin.Gt(lin.Atom(c.lenAtom(fn.Params[0].Name())), lin.Atom(p.Name()), "proven at every call of "+fn.Name()+": "+p.Name()+" < File.len"))
			} else if pc.upper {
				out = append(out, lin.Ge(lin.Atom(c.lenAtom(fn.Params[0].Name())), lin.Atom(p.Name()), "proven at every call of "+fn.Name()+": "+p.Name()+" <= File.len"))
			} else {
				out = append(out, lin.Ge(lin.Atom(p.Name()), lin.Const(0), "proven at every call of "+fn.Name()+": "+p.Name()+" >= 0"))
			}
		}
		return out
	}
	if pcs, ok := c.preCache[fn]; ok {
		return mk(pcs)
	}
	if c.preBusy[fn] || c.linDepth > 2 {
		return nil
	}
	if fn.Parent() != nil || fn.Synthetic != "" || token.IsExported(fn.Name()) || !c.P.InLib(fn) || len(fn.Blocks) == 0 {
		c.preCache[fn] = nil
		return nil
	}
	edges := c.P.Callers(fn)
	if len(edges) == 0 {
		c.preCache[fn] = nil
		return nil
	}
	for _, e := range edges {
		if e.Site == nil || e.Site.Common().StaticCallee() != fn || e.Caller.Func == nil || !c.P.InLib(e.Caller.Func) {
			c.preCache[fn] = nil
			return nil
		}
		if _, isCall := e.Site.(*ssa.Call); !isCall {
			c.preCache[fn] = nil
			return nil
		}
	}
	isReader := fn.Signature.Recv() != nil && ssax.PtrNamedIs(fn.Signature.Recv().Type(), "text", "Reader") && c.model().ok
	var cands []preCand
	for i, p := range fn.Params {
		if i == 0 && fn.Signature.Recv() != nil {
			continue
		}
		if bt, ok := p.Type().Underlying().(*types.Basic); ok && bt.Info()&types.IsInteger != 0 && !ssax.NamedIs(p.Type(), "parsley", "Pos") {
			cands = append(cands, preCand{i, false, false})
			if isReader {
				cands = append(cands, preCand{i, true, false}, preCand{i, true, true})
			}
		}
	}
	if len(cands) == 0 {
		c.preCache[fn] = nil
		return nil
	}
	c.preBusy[fn] = true
	c.linDepth++
	var proven []preCand
	for _, pc := range cands {
		all := true
		for _, e := range edges {
			call := e.Site.(*ssa.Call)
			cg := c.linFn(e.Caller.Func)
			arg := cg.Norm(call.Call.Args[pc.param])
			facts := cg.FactsAt(call.Block())
			var goal lin.Cons
			if pc.upper {
				ln, ok := cg.Substitute(lin.Atom(c.lenAtom(fn.Params[0].Name())), fn, call.Call.Args)
				if !ok {
					all = false
					break
				}
				goal = lin.Ge(ln, arg, "")
				if pc.strict {
					goal = lin.Gt(ln, arg, "")
				}
			} else {
				goal = lin.Ge(arg, lin.Const(0), "")
			}
			if !lin.Prove(facts, goal) {
				all = false
				break
			}
		}
		if all {
			proven = append(proven, pc)
		}
	}
	c.linDepth--
	delete(c.preBusy, fn)
	c.preCache[fn] = proven
	return mk(proven)
}

func (c *Ctx) offsetAtom(recv string) string {
	m := c.model()
	return recv + "." + m.ReaderFile + "." + m.Offset
}

func (c *Ctx) lenAtom(recv string) string {
	m := c.model()
	return recv + "." + m.ReaderFile + "." + m.Len
}

func (c *Ctx) ruleW0(rule string) {
	c.R.Rule(rule, "File.data/len/filename are stored only in NewFile, File.offset only in NewFile and SetOffset, File.lines only in setLines (called under lines == nil), Reader.file only in NewReader; no element of File.data is ever stored", 6)
	m := c.model()
	if !m.ok {
		c.R.Fail("coverage-lost", rule, "text model", "-", "-", "the roles of text.File / text.Reader fields could not be discovered: "+m.why)
		return
	}
	setLines := ""
	if m.SetLines != nil {
		setLines = c.name(m.SetLines)
	}
	allowed := map[string][]string{
		"File." + m.Data: {"text.NewFile"}, "File." + m.Len: {"text.NewFile"},
		"File." + m.Offset: {"text.NewFile", "(*text.File).SetOffset"}, "File." + m.Lines: {setLines},
		"Reader." + m.ReaderFile: {"text.NewReader"},
	}
	if m.ReaderCache != "" {
		allowed["Reader."+m.ReaderCache] = []string{"text.NewReader"}
	}
	textPkg := c.P.Lib["text"]
	seen := map[string]int{}
	for _, fn := range c.P.LibFuncs {
		if fn.Synthetic != "" {
			continue
		}
		for _, b := range fn.Blocks {
			for _, in := range b.Instrs {
				st, ok := in.(*ssa.Store)
				if !ok {
					continue
				}
				switch a := st.Addr.(type) {
				case *ssa.FieldAddr:
					owner, isN := types.Unalias(a.X.Type().Underlying().(*types.Pointer).Elem()).(*types.Named)
					if !isN || textPkg == nil || owner.Obj().Pkg() != textPkg.Types {
						continue
					}
					key := owner.Obj().Name() + "." + fieldVar(a).Name()
					al, tracked := allowed[key]
					if !tracked {
						continue
					}
					ok2 := false
					for _, n := range al {
						if c.name(fn) == n {
							ok2 = true
						}
					}
					seen[key]++
					if ok2 {
						c.R.Hold(rule, c.name(fn)+" stores "+key, "designated writer")
					} else {
						c.R.Violation(rule, c.name(fn)+" writes "+key, c.name(fn), c.P.InstrPos(st), "text."+key+" is written outside its designated writer(s) "+strings.Join(al, ", ")+": the bounds proofs treat repeated reads of it as one value, and a reader could see the content change under it")
					}
				case *ssa.IndexAddr:
					if _, f, isLoad := fieldLoad(a.X); isLoad && f == m.Data {
						if base, _, _ := fieldLoad(a.X); base != nil && ssax.PtrNamedIs(base.Type(), "text", "File") {
							c.R.Violation(rule, c.name(fn)+" writes an element of File.data", c.name(fn), c.P.InstrPos(st), "a byte of the file content is overwritten after construction")
						}
					}
				}
			}
		}
	}
	for k := range allowed {
		if seen[k] == 0 && k != "Reader."+m.ReaderCache {
			c.R.Fail("coverage-lost", rule, "no writer of "+k, "-", "-", "no store to text."+k+" found at all: the anchor moved")
		}
	}
	// the content is the constructor's own copy, and nothing reachable from parse-time code writes into it
	a := c.Own()
	if nf := c.P.Func("text.NewFile"); nf != nil {
		for _, b := range nf.Blocks {
			for _, in := range b.Instrs {
				st, ok := in.(*ssa.Store)
				if !ok {
					continue
				}
				fa, ok := st.Addr.(*ssa.FieldAddr)
				if !ok || fieldVar(fa).Name() != m.Data {
					continue
				}
				var alias []string
				for o := range a.Info[nf].Origins(st.Val) {
					if o.Root.K != own.RFresh && o.Root.K != own.RExtern {
						alias = append(alias, o.String())
					}
				}
				if len(alias) == 0 {
					c.R.Hold(rule, "text.NewFile content", "a fresh copy of the argument")
				} else {
					c.R.Violation(rule, "text.NewFile aliases its argument", "text.NewFile", c.P.InstrPos(st), "the file content may be the caller's own slice ("+strings.Join(alias, ", ")+") instead of a copy: a caller reusing its buffer changes the file under every reader")
				}
			}
		}
	}
	for _, fn := range c.P.LibFuncs {
		if fn.Synthetic != "" || isInit(fn) {
			continue
		}
		for _, e := range a.Info[fn].SortedEffects() {
			if e.Root.K == own.RFresh || e.In != fn && len(e.Chain) == 0 {
				continue
			}
			if !strings.HasSuffix(e.Path, "."+m.Data+"[]") {
				continue
			}
			// the file content is a byte slice (other types have fields of the same name)
			isBytes := false
			if e.ElemOf != nil {
				if sl, ok := e.ElemOf.Underlying().(*types.Slice); ok {
					if bt, ok := sl.Elem().Underlying().(*types.Basic); ok && bt.Kind() == types.Uint8 {
						isBytes = true
					}
				}
			}
			if !isBytes {
				continue
			}
			if len(e.Chain) > 0 {
				// reported where the write enters through a call chain: only at the outermost function that owns the path
				if c.S.Internal(fn) {
					continue
				}
			}
			c.R.Violation(rule, c.name(fn)+" writes file content", c.name(fn), c.P.InstrPos(e.Instr), "bytes of the file content are overwritten after construction ("+a.Describe(e)+"): a later read of the same bytes sees corrupted input")
			break
		}
	}
	// setLines only under lines == nil
	if sl := m.SetLines; sl != nil {
		// either the function storing the table does so only behind its own lines == nil test (a lazy getter) ...
		selfGuarded := true
		nStores := 0
		for _, b := range sl.Blocks {
			for _, in := range b.Instrs {
				st, ok := in.(*ssa.Store)
				if !ok {
					continue
				}
				fa, ok := st.Addr.(*ssa.FieldAddr)
				if !ok || fieldVar(fa) == nil || fieldVar(fa).Name() != m.Lines || namedOfType(fa.X.Type()) != m.FileT {
					continue
				}
				nStores++
				guarded := false
				for _, cd := range ssax.DominatingConds(b) {
					if x, nilIfTrue, isNT := nilTest(cd.Val); isNT && cd.Truth == nilIfTrue {
						if _, f, ok := fieldLoad(x); ok && f == m.Lines {
							guarded = true
						}
					}
				}
				if !guarded {
					selfGuarded = false
				}
			}
		}
		if selfGuarded && nStores > 0 {
			c.R.Hold(rule, c.name(sl)+" lazy line table", "stored only behind its own lines == nil test")
		}
		// ... or every call of it is guarded
		for _, e := range c.P.Callers(sl) {
			if selfGuarded && nStores > 0 {
				break
			}
			if e.Site == nil || !c.P.InLib(e.Caller.Func) || e.Caller.Func.Synthetic != "" {
				continue
			}
			good := false
			for _, cd := range ssax.DominatingConds(e.Site.Block()) {
				if x, nilIfTrue, isNT := nilTest(cd.Val); isNT && cd.Truth == nilIfTrue {
					if _, f, ok := fieldLoad(x); ok && f == m.Lines {
						good = true
					}
				}
			}
			if good {
				c.R.Hold(rule, c.name(e.Caller.Func)+" -> setLines", "only while lines == nil")
			} else {
				c.R.Violation(rule, c.name(e.Caller.Func)+" rebuilds the line table", c.name(e.Caller.Func), c.P.InstrPos(e.Site), "setLines is called without the lines == nil guard")
			}
		}
	}
}

// boundsObligations proves every index/slice expression of fn; returns (proved, failed).
func (c *Ctx) boundsObligations(rule string, fn *ssa.Function) (int, int) {
	lf := c.linFn(fn)
	name := c.name(fn)
	// receiver fields of a terminal's helper object: configuration (set by the constructor only)
	configAtoms = map[string]bool{}
	if fn.Signature.Recv() != nil && len(fn.Params) > 0 && !ssax.PtrNamedIs(fn.Signature.Recv().Type(), "text", "Reader") && !ssax.PtrNamedIs(fn.Signature.Recv().Type(), "text", "File") {
		if n := namedOfType(fn.Signature.Recv().Type()); n != nil && !n.Obj().Exported() {
			if st, ok := n.Underlying().(*types.Struct); ok {
				written := c.fieldsWritten(fn)
				for i := 0; i < st.NumFields(); i++ {
					if !written[st.Field(i).Name()] {
						configAtoms[fn.Params[0].Name()+"."+st.Field(i).Name()] = true
					}
				}
			}
		}
	}
	ok, bad := 0, 0
	prove := func(in ssa.Instruction, what string, goals ...lin.Cons) {
		var failed []string
		for _, g := range goals {
			if !lf.ProveAt(in.Block(), g) {
				// configuration-only lower bounds (captured constructor arguments): A-domain
				if isConfigOnly(g.E) {
					c.R.Exempt(name+" "+what, "the bound involves only captured constructor arguments ("+g.E.String()+" >= 0): outside the documented domain otherwise (A-domain)")
					continue
				}
				failed = append(failed, g.Why+" [need "+g.E.String()+" >= 0]")
			}
		}
		site := fmt.Sprintf("%s %s @%s", name, what, c.P.InstrPos(in))
		if len(failed) == 0 {
			ok++
			c.R.Hold(rule, site, "in bounds on every path")
		} else {
			bad++
			var fs []string
			for _, f := range lf.FactsAt(in.Block()) {
				if len(fs) < 12 {
					fs = append(fs, f.E.String()+" >= 0 ("+f.Why+")")
				}
			}
			c.R.Undecided(rule, name+" "+what+" unproven", name, c.P.InstrPos(in),
				"cannot prove this access in bounds from the dominating guards: "+strings.Join(failed, "; ")+". Either a guard is missing (out-of-range read or panic on some input) or the access left the shapes the linear engine understands",
				append([]string{"facts available:"}, fs...)...)
		}
	}
	for _, b := range fn.Blocks {
		for _, in := range b.Instrs {
			switch x := in.(type) {
			case *ssa.IndexAddr:
				if al, isAl := x.X.(*ssa.Alloc); isAl {
					if _, isArr := al.Type().Underlying().(*types.Pointer).Elem().Underlying().(*types.Array); isArr {
						if _, isC := x.Index.(*ssa.Const); isC {
							continue // literal element of a fixed-size temporary
						}
					}
				}
				i := lf.Norm(x.Index)
				prove(in, "index "+x.X.Name()+"["+x.Index.Name()+"]",
					lin.Ge(i, lin.Const(0), "index >= 0"), lin.Gt(lf.LenOf(x.X), i, "index < len"))
			case *ssa.Index:
				i := lf.Norm(x.Index)
				prove(in, "index "+x.X.Name()+"["+x.Index.Name()+"]",
					lin.Ge(i, lin.Const(0), "index >= 0"), lin.Gt(lf.LenOf(x.X), i, "index < len"))
			case *ssa.Lookup:
				if _, isMap := x.X.Type().Underlying().(*types.Map); isMap {
					continue
				}
				i := lf.Norm(x.Index)
				prove(in, "string index "+x.X.Name()+"["+x.Index.Name()+"]",
					lin.Ge(i, lin.Const(0), "index >= 0"), lin.Gt(lf.LenOf(x.X), i, "index < len"))
			case *ssa.Slice:
				if _, isAl := x.X.(*ssa.Alloc); isAl && x.Low == nil && x.High == nil {
					continue // whole-array slice of a temporary
				}
				lo, hi := lin.Const(0), lf.LenOf(x.X)
				if x.Low != nil {
					lo = lf.Norm(x.Low)
				}
				if x.High != nil {
					hi = lf.Norm(x.High)
				}
				goals := []lin.Cons{lin.Ge(lo, lin.Const(0), "low >= 0"), lin.Ge(hi, lo, "low <= high"), lin.Ge(lf.LenOf(x.X), hi, "high <= len")}
				prove(in, "slice "+x.X.Name()+"["+valName(x.Low)+":"+valName(x.High)+"]", goals...)
			}
		}
	}
	return ok, bad
}

func valName(v ssa.Value) string {
	if v == nil {
		return ""
	}
	return v.Name()
}

// isConfigOnly: every atom of the expression is a captured variable.
func isConfigOnly(e lin.Expr) bool {
	if len(e.Coef) == 0 {
		return false
	}
	for a := range e.Coef {
		if !strings.HasPrefix(a, "^") && !configAtoms[a] {
			return false
		}
	}
	return true
}

// configAtoms: atoms of the function under analysis that are fields of its receiver never written by parse-time
// code (a helper object holding the constructor's arguments in place of captured variables).
var configAtoms = map[string]bool{}

func (c *Ctx) ruleR09a(rule string, fns []*ssa.Function, min int) {
	c.R.Rule(rule, "every index and slice expression is proven 0 <= i < len / 0 <= lo <= hi <= len from dominating guards, File.len = len(File.data), loop induction and library contracts", min)
	for _, fn := range fns {
		c.boundsObligations(rule, fn)
	}
}

func (c *Ctx) ruleR09b(rule string) {
	c.R.Rule(rule, "matching primitives return the original position with the no-match value, or File.Pos(c) with 0 <= c <= File.len", 15)
	for _, fn := range c.readerFns() {
		res := fn.Signature.Results()
		if res.Len() != 2 || !ssax.NamedIs(res.At(0).Type(), "parsley", "Pos") {
			continue
		}
		var P *ssa.Parameter
		for _, p := range fn.Params[1:] {
			if ssax.NamedIs(p.Type(), "parsley", "Pos") {
				P = p
			}
		}
		if P == nil {
			continue
		}
		lf := c.linFn(fn)
		name := c.name(fn)
		r := fn.Params[0].Name()
		flen := lin.Atom(c.lenAtom(r))
		for _, ret := range ssax.Returns(fn) {
			site := name + " return @" + c.P.InstrPos(ret)
			pv := ssax.Strip(ret.Results[0])
			second := ssax.Strip(ret.Results[1])
			noMatch := false
			if k, isC := ssax.ConstBool(second); isC && !k {
				noMatch = true
			}
			if ssax.IsNilConst(second) && !isErrorType(ret.Results[1].Type()) {
				noMatch = true
			}
			if pv == ssa.Value(P) {
				if noMatch || isErrorType(ret.Results[1].Type()) {
					c.R.Hold(rule, site, "original position")
					continue
				}
				c.R.Violation(rule, name+" match without advance", name, c.P.InstrPos(ret), "a match is reported together with the unchanged position")
				continue
			}
			if noMatch {
				c.R.Violation(rule, name+" mismatch moves the position", name, c.P.InstrPos(ret), "on a mismatch the primitive returns "+pv.String()+" instead of the original position")
				continue
			}
			cl, ok := pv.(*ssa.Call)
			if !ok || cl.Call.StaticCallee() == nil || cl.Call.StaticCallee().Name() != "Pos" || len(cl.Call.Args) != 2 {
				c.R.Undecided(rule, name+" position shape", name, c.P.InstrPos(ret), "returned position is neither the parameter nor File.Pos(cursor)")
				continue
			}
			cur := lf.NormElem(cl.Call.Args[1])
			g1 := lin.Ge(cur, lin.Const(0), "cursor >= 0")
			g2 := lin.Ge(flen, cur, "cursor <= File.len")
			if lf.ProveAt(ret.Block(), g1) && lf.ProveAt(ret.Block(), g2) {
				c.R.Hold(rule, site, "File.Pos("+cur.String()+") with 0 <= cursor <= File.len")
			} else {
				c.R.Undecided(rule, name+" returned position unproven", name, c.P.InstrPos(ret), "cannot prove that the returned position File.Pos("+cur.String()+") lies within the file: the primitive may hand out a position past the end of the file")
			}
		}
	}
}

func (c *Ctx) ruleR09c(rule string) {
	c.R.Rule(rule, "the pattern cache compiles '^(?:'+expr+')', is read and written under that same expr, and rejects patterns matching the empty input", 3)
	isCompile := func(call ssa.CallInstruction) bool {
		sc := call.Common().StaticCallee()
		return sc != nil && sc.Pkg != nil && sc.Pkg.Pkg.Path() == "regexp" && (sc.Name() == "MustCompile" || sc.Name() == "Compile")
	}
	compileIn := func(f *ssa.Function) *ssa.Call {
		var out *ssa.Call
		for _, call := range ssax.Calls(f) {
			if cl, ok := call.(*ssa.Call); ok && isCompile(call) {
				out = cl
			}
		}
		return out
	}
	// the caching function: the reader method that compiles, directly or through a library helper returning the
	// compiled pattern
	var fn, cfn *ssa.Function // cache function, compiling function
	var compile *ssa.Call     // the regexp compile call (in cfn)
	var compiled ssa.Value    // the compiled pattern as the cache function sees it
	var viaArg ssa.Value      // the helper's expression argument at the call in fn
	var viaParam ssa.Value    // the helper's corresponding parameter
	for _, f := range c.readerFns() {
		if cl := compileIn(f); cl != nil {
			fn, cfn, compile, compiled = f, f, cl, cl
			break
		}
	}
	if fn == nil {
		for _, f := range c.readerFns() {
			for _, call := range ssax.Calls(f) {
				h := call.Common().StaticCallee()
				hc, isVal := call.(*ssa.Call)
				if h == nil || !isVal || call.Common().IsInvoke() || !c.P.InLib(h) || len(h.Blocks) == 0 || h.Signature.Results().Len() != 1 {
					continue
				}
				cl := compileIn(h)
				if cl == nil {
					continue
				}
				all := true
				for _, r := range ssax.Returns(h) {
					if ssax.Strip(r.Results[0]) != ssa.Value(cl) {
						all = false
					}
				}
				if !all {
					continue
				}
				fn, cfn, compile, compiled = f, h, cl, hc
				for _, pt := range concatParts(cl.Call.Args[0]) {
					if pp, ok := pt.(*ssa.Parameter); ok {
						for i, hp := range h.Params {
							if hp == pp && i < len(hc.Call.Args) {
								viaArg, viaParam = hc.Call.Args[i], pp
							}
						}
					}
				}
			}
		}
	}
	if fn == nil {
		c.R.Fail("coverage-lost", rule, "pattern cache", "-", "-", "no *text.Reader method compiling a regexp found")
		return
	}
	name := c.name(fn)
	// argument: const + param + const
	parts := concatParts(compile.Call.Args[0])
	okShape := false
	var exprParam ssa.Value
	for _, pt := range parts {
		if pp, isParam := pt.(*ssa.Parameter); isParam {
			exprParam = pp
		}
	}
	if len(parts) == 3 {
		pre, isPre := constString(parts[0])
		suf, isSuf := constString(parts[2])
		if _, isParam := parts[1].(*ssa.Parameter); isParam && isPre && isSuf {
			exprParam = parts[1]
			anch := strings.HasPrefix(pre, "^") || strings.HasPrefix(pre, `\A`)
			grp := strings.HasSuffix(pre, "(?:") || strings.HasSuffix(pre, "(")
			if anch && grp && suf == ")" {
				okShape = true
			}
		}
	}
	if okShape {
		c.R.Hold(rule, name+" compile @"+c.P.InstrPos(compile), "anchor + group around the whole expression")
	} else {
		c.R.Violation(rule, name+" pattern not anchored as a whole", name, c.P.InstrPos(compile), "the compiled pattern is not '^(?:' + expr + ')': with a top-level alternation only the first alternative is anchored at the cursor, and a later alternative can match further on in the input")
	}
	// cache key
	if viaParam != nil {
		if exprParam == viaParam {
			exprParam = viaArg // the expression as the caching function names it
		} else {
			exprParam = nil
		}
	}
	okKey := exprParam != nil
	nKey := 0
	for _, b := range fn.Blocks {
		for _, in := range b.Instrs {
			switch x := in.(type) {
			case *ssa.Lookup:
				if isPatternCache(x.X.Type()) {
					nKey++
					if x.Index != exprParam {
						okKey = false
					}
				}
			case *ssa.MapUpdate:
				if isPatternCache(x.Map.Type()) {
					nKey++
					if x.Key != exprParam || ssax.Strip(x.Value) != compiled {
						okKey = false
					}
				}
			}
		}
	}
	if okKey && nKey >= 2 {
		c.R.Hold(rule, name+" cache key", "read and written under the expression itself; stores the compiled pattern")
	} else {
		c.R.Violation(rule, name+" cache key", name, c.P.Pos(fn.Pos()), "the pattern cache is not read and written under the same expression string (or stores another value): one expression can be served another's compiled pattern")
	}
	// empty-match rejection
	okEmpty := false
	for _, b := range append(append([]*ssa.BasicBlock{}, cfn.Blocks...), fn.Blocks...) {
		if len(b.Instrs) == 0 {
			continue
		}
		if _, isPanic := b.Instrs[len(b.Instrs)-1].(*ssa.Panic); !isPanic {
			continue
		}
		for _, cd := range ssax.DominatingConds(b) {
			if cl, ok := cd.Val.(*ssa.Call); ok && cd.Truth {
				if sc := cl.Call.StaticCallee(); sc != nil && sc.Name() == "Match" && len(cl.Call.Args) == 2 && ssax.IsNilConst(cl.Call.Args[1]) && (cl.Call.Args[0] == ssa.Value(compile) || cl.Call.Args[0] == compiled) {
					okEmpty = true
				}
			}
		}
	}
	if okEmpty {
		c.R.Hold(rule, name+" empty-match rejection", "panics when the compiled pattern matches the empty input")
	} else {
		c.R.Violation(rule, name+" accepts empty-matching patterns", name, c.P.Pos(fn.Pos()), "patterns that match the empty input are no longer rejected: a regexp match may then report success without advancing")
	}
}

func constString(v ssa.Value) (string, bool) {
	c, ok := v.(*ssa.Const)
	if !ok || c.Value == nil || c.Value.Kind() != constant.String {
		return "", false
	}
	return constant.StringVal(c.Value), true
}

// concatParts flattens a + b + c of strings.
func concatParts(v ssa.Value) []ssa.Value {
	if b, ok := v.(*ssa.BinOp); ok && b.Op == token.ADD {
		return append(concatParts(b.X), concatParts(b.Y)...)
	}
	return []ssa.Value{v}
}

func (c *Ctx) ruleR09d(rule string) {
	c.R.Rule(rule, "Reader.Remaining returns File.len - (pos - offset); Reader.IsEOF returns pos - offset >= File.len (compared as linear forms, so any algebraically equal rewrite passes)", 2)
	for _, fn := range c.readerFns() {
		if len(fn.Params) != 2 || !ssax.NamedIs(fn.Params[1].Type(), "parsley", "Pos") {
			continue
		}
		res := fn.Signature.Results()
		if res.Len() != 1 {
			continue
		}
		lf := c.linFn(fn)
		r, p := fn.Params[0].Name(), fn.Params[1].Name()
		rem := lin.Atom(c.lenAtom(r)).Sub(lin.Atom(p)).Add(lin.Atom(c.offsetAtom(r)))
		name := c.name(fn)
		bt, _ := res.At(0).Type().Underlying().(*types.Basic)
		for _, ret := range ssax.Returns(fn) {
			switch {
			case fn.Name() == "Remaining" && bt != nil && bt.Info()&types.IsInteger != 0:
				got := lf.Norm(ret.Results[0])
				if got.Sub(rem).IsConst() && got.Sub(rem).K == 0 {
					c.R.Hold(rule, name, "= "+rem.String())
				} else {
					c.R.Violation(rule, name+" linear form", name, c.P.InstrPos(ret), "Remaining returns "+got.String()+" instead of "+rem.String()+" (bytes left in the file): the curtailment bound of memoized parsers is computed from it, so left-recursive parses are cut too early or too late on some inputs")
				}
			case fn.Name() == "IsEOF" && bt != nil && bt.Kind() == types.Bool:
				cs := lf.CondCons(ret.Results[0], true)
				good := false
				if len(cs) == 1 && !cs[0].Ne {
					// pos - offset - len >= 0  ==  -rem >= 0
					d := cs[0].E.Add(rem)
					good = d.IsConst() && d.K == 0
				}
				if good {
					c.R.Hold(rule, name, "= ("+rem.String()+" <= 0)")
				} else {
					c.R.Violation(rule, name+" linear form", name, c.P.InstrPos(ret), "IsEOF is not 'no bytes remain' (pos - offset >= File.len): End() would accept before, or reject at, the end of input")
				}
			}
		}
	}
}

var _ = load.PkgOf

// ruleR09e: MatchWord refuses a match exactly when the byte after the word is a word character [A-Za-z0-9_].
// The boundary test is folded for each of the 256 byte values (helper predicates included).
func (c *Ctx) ruleR09e(rule string) {
	c.R.Rule(rule, "the byte following a matched word rejects the match iff it is one of A-Z a-z 0-9 _ (finite-domain folding of the boundary test)", 1)
	var fn *ssa.Function
	for _, f := range c.readerFns() {
		if f.Name() == "MatchWord" {
			fn = f
		}
	}
	if fn == nil {
		c.R.Fail("coverage-lost", rule, "MatchWord", "-", "-", "(*text.Reader).MatchWord not found")
		return
	}
	name := c.name(fn)
	m := c.model()
	lf := c.linFn(fn)
	var word, pos *ssa.Parameter
	for _, p := range fn.Params[1:] {
		if bt, ok := p.Type().Underlying().(*types.Basic); ok && bt.Info()&types.IsString != 0 {
			word = p
		}
		if ssax.NamedIs(p.Type(), "parsley", "Pos") {
			pos = p
		}
	}
	if word == nil || pos == nil || !m.ok {
		c.R.Undecided(rule, name+" shape", name, c.P.Pos(fn.Pos()), "parameters not recognised")
		return
	}
	// the byte right after the word: data[cur + len(word)]
	after := lin.Atom(pos.Name()).Sub(lin.Atom(c.offsetAtom(fn.Params[0].Name()))).Add(lf.LenOf(word))
	var bytes []ssa.Value
	for _, b := range fn.Blocks {
		for _, in := range b.Instrs {
			u, ok := in.(*ssa.UnOp)
			if !ok || u.Op != token.MUL {
				continue
			}
			ia, ok := u.X.(*ssa.IndexAddr)
			if !ok {
				continue
			}
			if _, f, isLoad := fieldLoad(ia.X); !isLoad || f != m.Data {
				continue
			}
			d := lf.Norm(ia.Index).Sub(after)
			if d.IsConst() && d.K == 0 {
				bytes = append(bytes, u)
			}
		}
	}
	if len(bytes) == 0 {
		c.R.Undecided(rule, name+" boundary byte", name, c.P.Pos(fn.Pos()), "no read of the byte following the word (data[cur+len(word)]) found: the word-boundary test left the recognised shape")
		return
	}
	isByte := func(v ssa.Value) bool {
		for _, b := range bytes {
			if v == b {
				return true
			}
		}
		return false
	}
	start := bytes[0].(ssa.Instruction).Block()
	var wrong []string
	undec := false
	for v := int64(0); v < 256; v++ {
		acc, rej := false, false
		seen := map[*ssa.BasicBlock]bool{}
		var walk func(b *ssa.BasicBlock, from *ssa.BasicBlock, env benv)
		walk = func(b *ssa.BasicBlock, from *ssa.BasicBlock, env benv) {
			if seen[b] {
				return
			}
			seen[b] = true
			e2 := benv{}
			for k, val := range env {
				e2[k] = val
			}
			for _, in := range b.Instrs {
				if ph, ok := in.(*ssa.Phi); ok {
					if from != nil {
						for i, p := range b.Preds {
							if p == from {
								if r := foldValue(ph.Edges[i], e2, 0); r.known {
									e2[ph] = r
								}
							}
						}
					}
					continue
				}
				if val, ok := in.(ssa.Value); ok {
					if isByte(val) {
						e2[val] = bval{known: true, i: v}
					} else if r := foldValue(val, e2, 0); r.known {
						e2[val] = r
					}
				}
			}
			switch t := b.Instrs[len(b.Instrs)-1].(type) {
			case *ssa.Return:
				if k, isC := ssax.ConstBool(t.Results[1]); isC {
					if k {
						acc = true
					} else {
						rej = true
					}
				} else {
					undec = true
				}
			case *ssa.If:
				cd := foldValue(t.Cond, e2, 0)
				if cd.known && cd.isB {
					if cd.b {
						walk(b.Succs[0], b, e2)
					} else {
						walk(b.Succs[1], b, e2)
					}
				} else if dependsOnByte(t.Cond, isByte, map[ssa.Value]bool{}) {
					undec = true // depends on the byte but cannot be folded (e.g. a call outside the library)
				} else {
					walk(b.Succs[0], b, e2)
					walk(b.Succs[1], b, e2)
				}
			case *ssa.Jump:
				walk(b.Succs[0], b, e2)
			}
		}
		walk(start, nil, benv{})
		isWord := v >= 'a' && v <= 'z' || v >= 'A' && v <= 'Z' || v >= '0' && v <= '9' || v == '_'
		switch {
		case acc && rej:
			undec = true
		case isWord && acc, !isWord && rej:
			if len(wrong) < 8 {
				wrong = append(wrong, fmt.Sprintf("0x%02X", v))
			}
		}
	}
	switch {
	case undec:
		c.R.Undecided(rule, name+" boundary test not foldable", name, c.P.InstrPos(bytes[0].(ssa.Instruction)), "the word-boundary test depends on the following byte in a way that cannot be folded over the 256 byte values (e.g. it calls a function outside the library such as unicode.IsLetter, whose notion of a letter differs from the documented ASCII word characters for bytes >= 0x80)")
	case len(wrong) > 0:
		c.R.Violation(rule, name+" word-character set", name, c.P.InstrPos(bytes[0].(ssa.Instruction)), "the byte following a word is classified differently from the documented word characters [A-Za-z0-9_] for "+strings.Join(wrong, ", ")+"…: a keyword is matched as a prefix of a longer identifier, or refused before a non-word byte")
	default:
		c.R.Hold(rule, name+" boundary test", "rejects exactly for A-Z a-z 0-9 _ (256 byte values folded)")
	}
}

// isPatternCache: a map from expression strings to compiled patterns, wherever it lives.
func isPatternCache(t types.Type) bool {
	m, ok := t.Underlying().(*types.Map)
	if !ok {
		return false
	}
	kb, ok := m.Key().Underlying().(*types.Basic)
	if !ok || kb.Info()&types.IsString == 0 {
		return false
	}
	return ssax.PtrNamedIs(m.Elem(), "regexp", "Regexp")
}
