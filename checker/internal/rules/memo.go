package rules

import (
	"fmt"
	"go/token"
	"go/types"

	"golang.org/x/tools/go/ssa"

	"pv/internal/ssax"
)

// Memo is the recognised shape of a memoizing parser function: cache lookup, curtailment guard,
// wrapped call, cache store.
type Memo struct {
	Fn   *ssa.Function
	Get  *ssa.Call // (parsley.ResultCache).Get(rc, idx, pos, leftRecCtx)
	Save *ssa.Call // the save point in Fn: (parsley.ResultCache).Save(rc, idx, pos, result), or the call of a helper doing it
	// SaveInner is the Save call itself (== Save unless a helper does the saving); SaveArgs are its arguments in
	// Fn's terms (the helper's parameters replaced by the arguments it is called with).
	SaveInner *ssa.Call
	SaveArgs  []ssa.Value
	// GetArgs are the arguments of the Get call in Fn's terms (Get may be wrapped by a helper returning its results)
	GetArgs []ssa.Value
	// Tr maps a value of the saving helper (one of its parameters) to the argument it stands for in Fn
	Tr      func(ssa.Value) ssa.Value
	Wrapped *ssa.Call              // the call of the wrapped parser
	Result  *ssa.Alloc             // the *parsley.Result saved
	Stored  map[string][]ssa.Value // field name -> stored values
	Stores  map[string][]*ssa.Store
}

func isResultCacheMethod(f *ssa.Function, name string) bool {
	if f == nil || f.Name() != name || f.Signature.Recv() == nil {
		return false
	}
	return ssax.NamedIs(f.Signature.Recv().Type(), "parsley", "ResultCache")
}

// memos finds every library function that consults the result cache.
func (c *Ctx) memos() []*Memo {
	var out []*Memo
	getHelpers := map[*ssa.Function]bool{}
	for _, fn := range c.P.LibFuncs {
		if fn.Synthetic != "" {
			continue
		}
		var m *Memo
		for _, call := range ssax.Calls(fn) {
			cl, ok := call.(*ssa.Call)
			if !ok {
				continue
			}
			sc := cl.Call.StaticCallee()
			switch {
			case isResultCacheMethod(sc, "Get"):
				if m == nil {
					m = &Memo{Fn: fn, Stored: map[string][]ssa.Value{}, Stores: map[string][]*ssa.Store{}}
				}
				if m.Get != nil {
					m.Get = nil // ambiguous
					continue
				}
				m.Get = cl
			case isResultCacheMethod(sc, "Save"):
				if m == nil {
					m = &Memo{Fn: fn, Stored: map[string][]ssa.Value{}, Stores: map[string][]*ssa.Store{}}
				}
				m.Save = cl
			}
		}
		if m != nil && m.Get != nil {
			m.GetArgs = append([]ssa.Value{}, m.Get.Call.Args...)
		}
		if (m == nil || m.Get == nil) && ssax.IsParserSig(fn.Signature) {
			// the lookup may have been moved into a helper that returns ResultCache.Get's two results unchanged
			for _, call := range ssax.Calls(fn) {
				hc, ok := call.(*ssa.Call)
				if !ok || hc.Call.IsInvoke() {
					continue
				}
				h := hc.Call.StaticCallee()
				if h == nil || !c.P.InLib(h) || len(h.Blocks) == 0 || ssax.IsParserSig(h.Signature) || h.Signature.Results().Len() != 2 {
					continue
				}
				var inner *ssa.Call
				n := 0
				for _, k := range ssax.Calls(h) {
					if kc, ok := k.(*ssa.Call); ok && isResultCacheMethod(kc.Call.StaticCallee(), "Get") {
						inner = kc
						n++
					}
				}
				if n != 1 {
					continue
				}
				okRet := true
				for _, r := range ssax.Returns(h) {
					if len(r.Results) != 2 || !isExtractOf(r.Results[0], inner, 0) || !isExtractOf(r.Results[1], inner, 1) {
						okRet = false
					}
				}
				if !okRet {
					continue
				}
				if m == nil {
					m = &Memo{Fn: fn, Stored: map[string][]ssa.Value{}, Stores: map[string][]*ssa.Store{}}
				}
				m.Get = hc
				m.GetArgs = nil
				for _, a := range inner.Call.Args {
					v := a
					s := ssax.Strip(a)
					for i, p := range h.Params {
						if ssa.Value(p) == s && i < len(hc.Call.Args) {
							v = hc.Call.Args[i]
						}
					}
					// a field of the helper's receiver read inside the helper: the same field of the argument
					if _, isParam := s.(*ssa.Parameter); !isParam {
						if d := keyDesc(a); d != "" {
							if eq := c.sameDescIn(fn, d); eq != nil {
								v = eq
							}
						}
					}
					m.GetArgs = append(m.GetArgs, v)
				}
				getHelpers[h] = true
			}
		}
		if m == nil {
			continue
		}
		tr := func(v ssa.Value) ssa.Value { return v }
		if m.Save != nil {
			m.SaveInner = m.Save
		} else if m.Get != nil {
			// the saving may have been moved into a helper: h(..., idx, pos, context, node, cp, err) that saves
			// unconditionally
			for _, call := range ssax.Calls(fn) {
				hc, ok := call.(*ssa.Call)
				if !ok {
					continue
				}
				h := hc.Call.StaticCallee()
				if h == nil || hc.Call.IsInvoke() || !c.P.InLib(h) || len(h.Blocks) == 0 || ssax.IsParserSig(h.Signature) {
					continue
				}
				var inner *ssa.Call
				other := false
				for _, k := range ssax.Calls(h) {
					kc, ok := k.(*ssa.Call)
					if !ok {
						continue
					}
					switch {
					case isResultCacheMethod(kc.Call.StaticCallee(), "Save"):
						inner = kc
					case isResultCacheMethod(kc.Call.StaticCallee(), "Get"), ssax.IsParseCall(kc):
						other = true
					}
				}
				if inner == nil || other || len(ssax.DominatingConds(inner.Block())) > 0 {
					continue
				}
				m.Save, m.SaveInner = hc, inner
				args := hc.Call.Args
				tr = func(v ssa.Value) ssa.Value {
					s := ssax.Strip(v)
					for i, p := range h.Params {
						if ssa.Value(p) == s && i < len(args) {
							return args[i]
						}
					}
					return v
				}
			}
		}
		m.Tr = tr
		if m.SaveInner != nil {
			for _, a := range m.SaveInner.Call.Args {
				m.SaveArgs = append(m.SaveArgs, tr(a))
			}
		}
		for _, call := range ssax.Calls(fn) {
			if cl, ok := call.(*ssa.Call); ok && ssax.IsParseCall(cl) {
				if m.Wrapped == nil {
					m.Wrapped = cl
				}
			}
		}
		if m.SaveInner != nil && len(m.SaveInner.Call.Args) == 4 {
			for _, l := range ssax.Leaves(m.SaveInner.Call.Args[3]) {
				if al, ok := l.(*ssa.Alloc); ok && ssax.NamedIs(al.Type().Underlying().(*types.Pointer).Elem(), "parsley", "Result") {
					m.Result = al
				}
			}
		}
		if m.Result != nil && m.Result.Referrers() != nil {
			for _, r := range *m.Result.Referrers() {
				fa, ok := r.(*ssa.FieldAddr)
				if !ok || fa.Referrers() == nil {
					continue
				}
				name := fa.X.Type().Underlying().(*types.Pointer).Elem().Underlying().(*types.Struct).Field(fa.Field).Name()
				for _, rr := range *fa.Referrers() {
					if st, ok := rr.(*ssa.Store); ok && st.Addr == fa {
						m.Stored[name] = append(m.Stored[name], tr(st.Val))
						m.Stores[name] = append(m.Stores[name], st)
					}
				}
			}
		}
		out = append(out, m)
	}
	// a helper that only saves on behalf of a memoizing parser is part of that parser, not one of its own
	helper := map[*ssa.Function]bool{}
	for _, m := range out {
		if m.SaveInner != nil && m.SaveInner != m.Save {
			helper[m.SaveInner.Parent()] = true
		}
	}
	var kept []*Memo
	for _, m := range out {
		if helper[m.Fn] && m.Get == nil {
			continue
		}
		if getHelpers[m.Fn] && m.Wrapped == nil {
			continue
		}
		kept = append(kept, m)
	}
	return kept
}

// fieldLoad: v is a load of field `name` of *base.
func fieldLoad(v ssa.Value) (base ssa.Value, name string, ok bool) {
	u, isU := v.(*ssa.UnOp)
	if !isU || u.Op != token.MUL {
		return nil, "", false
	}
	fa, isF := u.X.(*ssa.FieldAddr)
	if !isF {
		return nil, "", false
	}
	st, isS := fa.X.Type().Underlying().(*types.Pointer).Elem().Underlying().(*types.Struct)
	if !isS {
		return nil, "", false
	}
	return fa.X, st.Field(fa.Field).Name(), true
}

// isExtractOf: v (through value-preserving wrappers) is Extract #idx of call.
func isExtractOf(v ssa.Value, call ssa.Value, idx int) bool {
	e, ok := ssax.Strip(v).(*ssa.Extract)
	return ok && e.Tuple == call && e.Index == idx
}

// isRecvValue: v is the function's receiver (the parameter itself, or a load of the local it was spilled into).
func isRecvValue(fn *ssa.Function, v ssa.Value) bool {
	if fn.Signature.Recv() == nil || len(fn.Params) == 0 {
		return false
	}
	v = ssax.Strip(v)
	if v == ssa.Value(fn.Params[0]) {
		return true
	}
	if u, ok := v.(*ssa.UnOp); ok && u.Op == token.MUL {
		return isRecvSpill(fn, u.X)
	}
	return false
}

// isRecvSpill: addr is the local variable holding a copy of the (value) receiver, never stored to again.
func isRecvSpill(fn *ssa.Function, addr ssa.Value) bool {
	al, ok := addr.(*ssa.Alloc)
	if !ok || al.Referrers() == nil {
		return false
	}
	n := 0
	for _, r := range *al.Referrers() {
		if st, ok := r.(*ssa.Store); ok && st.Addr == al {
			n++
			if st.Val != ssa.Value(fn.Params[0]) {
				return false
			}
		}
	}
	return n == 1
}

// keyDesc names where a cache key / counter index comes from, independently of the SSA value that carries it:
// a captured variable of the closure, or a field of the method's receiver.
func keyDesc(v ssa.Value) string {
	v = ssax.Strip(v)
	if cv, ok := v.(*ssa.Convert); ok {
		if d := keyDesc(cv.X); d != "" {
			return "conv:" + d
		}
		return ""
	}
	in, ok := v.(ssa.Instruction)
	if !ok || in.Parent() == nil {
		return ""
	}
	fn := in.Parent()
	switch x := v.(type) {
	case *ssa.UnOp:
		if x.Op != token.MUL {
			return ""
		}
		switch a := x.X.(type) {
		case *ssa.FreeVar:
			return "captured:" + a.Name()
		case *ssa.FieldAddr:
			if fn.Signature.Recv() != nil && (a.X == ssa.Value(fn.Params[0]) || isRecvSpill(fn, a.X)) {
				// the field must not be written in this function
				if a.X.Referrers() != nil {
					for _, r := range *a.X.Referrers() {
						if fa, ok := r.(*ssa.FieldAddr); ok && fa.Field == a.Field && fa.Referrers() != nil {
							for _, rr := range *fa.Referrers() {
								if st, ok := rr.(*ssa.Store); ok && st.Addr == fa {
									return ""
								}
							}
						}
					}
				}
				return "recv." + fieldVar(a).Name()
			}
		}
	case *ssa.Field:
		if fn.Signature.Recv() != nil && x.X == ssa.Value(fn.Params[0]) {
			return "recv." + x.X.Type().Underlying().(*types.Struct).Field(x.Field).Name()
		}
	}
	return ""
}

// sameSource: both values denote the same immutable source: identical SSA values, loads of the same captured
// variable, or loads of the same receiver field.
func sameSource(a, b ssa.Value) bool {
	a, b = ssax.Strip(a), ssax.Strip(b)
	if a == b {
		return true
	}
	da, db := keyDesc(a), keyDesc(b)
	return da != "" && da == db
}

// boolHelper: v is a call to a library function with a bool result and a single return; yields the returned
// expression and the mapping from the helper's parameters to the actual arguments.
func (c *Ctx) boolHelper(v ssa.Value) (*ssa.Function, ssa.Value, map[ssa.Value]ssa.Value, bool) {
	cl, ok := v.(*ssa.Call)
	if !ok {
		return nil, nil, nil, false
	}
	h := cl.Call.StaticCallee()
	if h == nil || !c.P.InLib(h) || len(h.Blocks) == 0 || h.Signature.Results().Len() != 1 {
		return nil, nil, nil, false
	}
	if bt, ok := h.Signature.Results().At(0).Type().Underlying().(*types.Basic); !ok || bt.Kind() != types.Bool {
		return nil, nil, nil, false
	}
	rets := ssax.Returns(h)
	if len(rets) != 1 {
		return nil, nil, nil, false
	}
	m := map[ssa.Value]ssa.Value{}
	for i, p := range h.Params {
		if i < len(cl.Call.Args) {
			m[p] = cl.Call.Args[i]
		}
	}
	return h, rets[0].Results[0], m, true
}

var resultFields = []string{"Node", "CurtailingParsers", "Error"}

// ruleCacheIdentity: what the cache stores, what a hit returns and what a miss returns are the wrapped
// call's own three results, keyed consistently (R07c = R03b).
func (c *Ctx) ruleCacheIdentity(rule string) {
	c.R.Rule(rule, "in every memoizing parser: Result.{Node,CurtailingParsers,Error} saved are results 0/1/2 of the wrapped call, the miss path returns those same values, the hit path returns those three fields of the cached entry in positions 0/1/2, Get and Save use the same index and position", 4)
	ms := c.memos()
	n := 0
	for _, m := range ms {
		if !c.S.Parser[m.Fn] {
			continue
		}
		n++
		fn := c.name(m.Fn)
		if m.Get == nil || m.Save == nil || m.Wrapped == nil || m.Result == nil {
			c.R.Undecided(rule, fn+" shape", fn, c.P.Pos(m.Fn.Pos()), fmt.Sprintf("function consults the result cache but is not in the recognised lookup/run/save shape (get=%v save=%v wrapped=%v result=%v)", m.Get != nil, m.Save != nil, m.Wrapped != nil, m.Result != nil))
			continue
		}
		// stored fields
		for i, f := range resultFields {
			vs := m.Stored[f]
			site := fn + " Result." + f
			switch {
			case len(vs) != 1:
				c.R.Violation(rule, fn+" stores Result."+f, fn, c.P.InstrPos(m.Save), fmt.Sprintf("Result.%s is stored %d times before Save; expected exactly the wrapped call's result %d", f, len(vs), i))
			case !(m.Stores[f][0].Block() == m.SaveInner.Block() || m.Stores[f][0].Block().Dominates(m.SaveInner.Block())):
				c.R.Violation(rule, fn+" stores Result."+f+" conditionally", fn, c.P.InstrPos(m.Stores[f][0]), fmt.Sprintf("Result.%s is filled in only on some paths to Save: on the others the cache entry lacks the wrapped parser's result %d, and a hit replays something else than the miss returned", f, i))
			case !isExtractOf(vs[0], m.Wrapped, i):
				c.R.Violation(rule, fn+" stores Result."+f, fn, c.P.InstrPos(m.Save), fmt.Sprintf("Result.%s saved in the cache is %s, not result %d of the wrapped parser call at %s: a later cache hit replays something the parser did not return", f, vs[0].String(), i, c.P.InstrPos(m.Wrapped)))
			default:
				c.R.Hold(rule, site, fmt.Sprintf("= result %d of wrapped call @%s", i, c.P.InstrPos(m.Wrapped)))
			}
		}
		// returns
		found := ssax.Extracts(m.Get, 1)
		entry := ssax.Extracts(m.Get, 0)
		for _, r := range ssax.Returns(m.Fn) {
			site := fn + " return @" + c.P.InstrPos(r)
			if len(r.Results) != 3 {
				continue
			}
			afterWrapped := m.Wrapped.Block() == r.Block() || m.Wrapped.Block().Dominates(r.Block())
			hit := false
			for _, cd := range ssax.DominatingConds(r.Block()) {
				for _, fe := range found {
					if cd.Val == fe && cd.Truth {
						hit = true
					}
				}
			}
			switch {
			case afterWrapped:
				ok := true
				for i := 0; i < 3; i++ {
					if !isExtractOf(r.Results[i], m.Wrapped, i) {
						ok = false
						c.R.Violation(rule, fmt.Sprintf("%s miss-path result %d", fn, i), fn, c.P.InstrPos(r), fmt.Sprintf("after running the wrapped parser the function returns %s in position %d instead of the wrapped call's result %d: memoized and plain grammars differ", r.Results[i].String(), i, i))
					}
				}
				if ok {
					c.R.Hold(rule, site, "miss path returns the wrapped call's three results")
				}
			case hit:
				ok := true
				for i, f := range resultFields {
					base, name, isLoad := fieldLoad(ssax.Strip(r.Results[i]))
					good := isLoad && name == f && len(entry) > 0
					if good {
						good = false
						for _, en := range entry {
							if base == en {
								good = true
							}
						}
					}
					if !good {
						ok = false
						c.R.Violation(rule, fmt.Sprintf("%s hit-path result %d", fn, i), fn, c.P.InstrPos(r), fmt.Sprintf("on a cache hit position %d returns %s, not field %s of the cached entry: the cached answer is not replayed faithfully", i, r.Results[i].String(), f))
					}
				}
				if ok {
					c.R.Hold(rule, site, "hit path returns entry.Node, entry.CurtailingParsers, entry.Error")
				}
			default:
				c.R.Examined(1) // curtailment return, judged by C02/C01 rules
			}
		}
		// key discipline: Save(idx,pos) == Get(idx,pos)
		ga, sa := m.GetArgs, m.SaveArgs
		if len(ga) == 4 && len(sa) == 4 {
			if sameSource(ga[1], sa[1]) && sameSource(ga[2], sa[2]) {
				c.R.Hold(rule, fn+" cache key", "Get and Save use the same parser index and position values")
			} else {
				c.R.Violation(rule, fn+" cache key", fn, c.P.InstrPos(m.Save), "Save is keyed differently from Get (index or position differ): results are stored where the lookup will not find them or found where they do not belong")
			}
		}
	}
	if n == 0 {
		c.R.Fail("coverage-lost", rule, "memoizing parsers", "-", "-", "no function in parser scope consults parsley.ResultCache: the Memoize anchor was not found")
	}
}

// sameDescIn finds in fn a value with the given key descriptor (a load of the same receiver field / captured
// variable), so that a key read inside a helper can be compared with the keys the function itself uses.
func (c *Ctx) sameDescIn(fn *ssa.Function, desc string) ssa.Value {
	for _, b := range fn.Blocks {
		for _, in := range b.Instrs {
			if v, ok := in.(ssa.Value); ok && keyDesc(v) == desc {
				return v
			}
		}
	}
	return nil
}
