package rules

import (
	"fmt"

	"go/constant"
	"go/token"
	"go/types"
	"pv/internal/lin"
	"sort"
	"strings"

	"golang.org/x/tools/go/ssa"

	"pv/internal/report"
	"pv/internal/ssax"
)

func init() {
	register(&Property{ID: "C10", Run: runC10, Meta: report.Meta{ID: "C10",
		Explanation: "DECIDED (for all whitespace runs, gaps and mode assignments at once): the agreement between the statement's mode table and the code's, and the 'token keeps its own start and value' clause. R10a in Reader.SkipWhitespaces every error return is selected by exactly one WsMode constant, wraps that mode's own whitespace-error variable, and is positioned as the statement says — none: start of the run (the pos parameter), only if the run is non-empty; spaces: the first line break; force-newline: end of the run, only if no line break was seen; spaces-and-newlines: never an error; every declared WsMode constant is covered. R10b the skipped alphabet is exactly {space, tab, LF, FF} and the line-break subset exactly {LF, FF}; the first-line-break marker is set only while it is still unset. R10c LeftTrim returns, on success, exactly the node its sub-parser returned when called at the position SkipWhitespaces(pos, wsMode) yielded, and (nil, _, wsErr) when the run violates the mode. R10d every SetReaderPos implementation rewrites only the field its ReaderPos() reads, with f(old value); RightTrim touches its result only through ast.SetReaderPos with a function that returns SkipWhitespaces of ITS OWN argument, and returns (nil, _, wsErr) on a mode violation. R10e in parsley.Parse a whitespace error is never replaced by the context's furthest error. NOT DECIDED: 'inserting permitted whitespace never changes a parse result' as a relation between two parses.",
		Assumptions: commonAssumptions, TrustedBase: commonTrusted}})
}

func runC10(c *Ctx) {
	c.U0()
	theModel = c.model()
	c.ruleR10ab("R10a mode-table-agreement", "R10b whitespace-alphabet")
	c.ruleR10c("R10c left-trim-identity")
	c.ruleR10d("R10d right-trim-moves-only-the-end")
	c.ruleR10e("R10e whitespace-errors-win")
}

// wsModes: the constants of type text.WsMode, by value.
func (c *Ctx) wsModes() map[int64]string {
	out := map[int64]string{}
	pk := c.P.Lib["text"]
	if pk == nil {
		return out
	}
	t := c.lookupType("text", "WsMode")
	for _, n := range pk.Types.Scope().Names() {
		if k, ok := pk.Types.Scope().Lookup(n).(*types.Const); ok && t != nil && types.Identical(k.Type(), t) {
			if v, ok := constant.Int64Val(k.Val()); ok {
				out[v] = k.Name()
			}
		}
	}
	return out
}

func (c *Ctx) skipWS() *ssa.Function { return c.P.Func("(*text.Reader).SkipWhitespaces") }

func (c *Ctx) ruleR10ab(ra, rb string) {
	c.R.Rule(ra, "SkipWhitespaces: each error return belongs to one mode, wraps that mode's error variable and carries the position kind the statement prescribes; all modes covered", 4)
	c.R.Rule(rb, "the skipping loop compares the current byte with exactly {0x20,0x09,0x0A,0x0C}; line breaks are {0x0A,0x0C}; the marker is set only while unset", 2)
	fn := c.skipWS()
	if fn == nil {
		c.R.Fail("coverage-lost", ra, "SkipWhitespaces", "-", "-", "(*text.Reader).SkipWhitespaces not found")
		return
	}
	name := c.name(fn)
	modes := c.wsModes()
	if len(modes) != 4 {
		c.R.Undecided(ra, name+" mode count", name, c.P.Pos(fn.Pos()), fmt.Sprintf("%d WsMode constants declared; the statement's table has four rows — a mode without a row cannot be judged", len(modes)))
	}
	var posP, modeP *ssa.Parameter
	for _, p := range fn.Params {
		if ssax.NamedIs(p.Type(), "parsley", "Pos") {
			posP = p
		}
		if ssax.NamedIs(p.Type(), "text", "WsMode") {
			modeP = p
		}
	}
	// the marker: loop-carried phi of position type initialised with 0; the cursor: the other loop-carried integer.
	// The loop may live in SkipWhitespaces itself or in a helper returning (cursor, marker).
	marker, curPhi := wsLoopPhis(fn)
	var curV, markV ssa.Value
	if marker != nil && curPhi != nil {
		curV, markV = curPhi, marker
	}
	lf := c.linFn(fn)
	var startForm lin.Expr
	if posP != nil {
		startForm = lin.Atom(posP.Name()).Sub(lin.Atom(c.offsetAtom(fn.Params[0].Name())))
	}
	isStartCursor := func(v ssa.Value, _ *ssa.Parameter) bool {
		d := lf.Norm(v).Sub(startForm)
		return d.IsConst() && d.K == 0
	}
	if curV != nil && posP != nil {
		for i, e := range curPhi.Edges {
			if !curPhi.Block().Dominates(curPhi.Block().Preds[i]) && !isStartCursor(e, posP) {
				c.R.Violation(ra, name+" scan start", name, c.P.InstrPos(curPhi), "the skipping loop does not start at the cursor of the position it was given (pos - File.offset): bytes are skipped unexamined or examined twice")
			}
		}
	}
	if curV == nil && posP != nil {
		for _, call := range ssax.Calls(fn) {
			cl, ok := call.(*ssa.Call)
			h := call.Common().StaticCallee()
			if !ok || h == nil || call.Common().IsInvoke() || !c.P.InLib(h) || len(h.Blocks) == 0 {
				continue
			}
			m2, c2 := wsLoopPhis(h)
			if m2 == nil || c2 == nil {
				continue
			}
			idxC, idxM, okRet := -1, -1, true
			for _, r := range ssax.Returns(h) {
				for i, res := range r.Results {
					switch ssax.Strip(res) {
					case ssa.Value(c2):
						if idxC >= 0 && idxC != i {
							okRet = false
						}
						idxC = i
					case ssa.Value(m2):
						if idxM >= 0 && idxM != i {
							okRet = false
						}
						idxM = i
					}
				}
			}
			if idxC < 0 || idxM < 0 {
				continue
			}
			for _, r := range ssax.Returns(h) {
				if ssax.Strip(r.Results[idxC]) != ssa.Value(c2) || ssax.Strip(r.Results[idxM]) != ssa.Value(m2) {
					okRet = false
				}
			}
			// the helper starts scanning at the cursor of the position handed to SkipWhitespaces
			okInit := false
			for i, e := range c2.Edges {
				if c2.Block().Dominates(c2.Block().Preds[i]) {
					continue
				}
				for k, hp := range h.Params {
					if e == ssa.Value(hp) && k < len(cl.Call.Args) && isStartCursor(cl.Call.Args[k], posP) {
						okInit = true
					}
				}
			}
			ec, em := ssax.Extracts(cl, idxC), ssax.Extracts(cl, idxM)
			if !okRet || !okInit || len(ec) == 0 || len(em) == 0 {
				c.R.Undecided(ra, name+" scanning helper", name, c.P.InstrPos(cl), "the scanning loop lives in "+c.name(h)+" but it does not return its cursor and marker on every path, or is not started at the cursor of the given position")
				return
			}
			marker, curPhi = m2, c2
			curV, markV = ec[0], em[0]
			name = c.name(h)
		}
	}
	if curV == nil || markV == nil || posP == nil || modeP == nil {
		c.R.Undecided(ra, name+" shape", name, c.P.Pos(fn.Pos()), "loop cursor / first-line-break marker / parameters not recognised (a table-driven or flag-based rewrite is outside the recognised shape)")
		return
	}
	name = c.name(fn)
	loopName := c.name(curPhi.Parent())
	isMarker := func(v ssa.Value) bool {
		for _, l := range ssax.Leaves(v) {
			if l == markV {
				return true
			}
		}
		return v == markV
	}
	posKind := func(v ssa.Value) string {
		v = ssax.Strip(v)
		if v == ssa.Value(posP) {
			return "start"
		}
		if v == markV {
			return "first-line-break"
		}
		if cl, ok := v.(*ssa.Call); ok {
			if sc := cl.Call.StaticCallee(); sc != nil && sc.Name() == "Pos" && len(cl.Call.Args) == 2 && cl.Call.Args[1] == curV {
				return "end"
			}
		}
		return "other(" + v.String() + ")"
	}
	want := map[string][2]string{ // mode name suffix -> position kind, run condition
		"WsNone":          {"start", "run-non-empty"},
		"WsSpaces":        {"first-line-break", "line-break-seen"},
		"WsSpacesForceNl": {"end", "no-line-break"},
	}
	covered := map[string]bool{}
	errVars := map[string]string{}
	for _, r := range ssax.Returns(fn) {
		if len(r.Results) != 2 {
			continue
		}
		if ssax.IsNilConst(ssax.Strip(r.Results[1])) {
			// the success return: the skipped-to position
			if k := posKind(r.Results[0]); k != "end" {
				c.R.Violation(ra, name+" success position", name, c.P.InstrPos(r), "on success SkipWhitespaces returns "+k+" instead of the position after the run")
			}
			continue
		}
		ne, ok := ssax.Strip(r.Results[1]).(*ssa.Call)
		if !ok || ne.Call.StaticCallee() == nil || ne.Call.StaticCallee().Name() != "NewError" {
			c.R.Undecided(ra, name+" error shape", name, c.P.InstrPos(r), "error return is not parsley.NewError(position, <whitespace error variable>)")
			continue
		}
		evar := ""
		if u, ok := ne.Call.Args[1].(*ssa.UnOp); ok && u.Op == token.MUL {
			if g, ok := u.X.(*ssa.Global); ok {
				evar = g.Name()
				if !c.isWhitespaceErrVar(g) {
					c.R.Violation(ra, name+" error variable "+evar, name, c.P.InstrPos(r), "the error wrapped here ("+evar+") is not initialised with parsley.NewWhitespaceError: Parse would not let it win over the furthest context error")
				}
			}
		}
		// selecting mode and run condition
		mode, cond := "", ""
		nmode := 0
		for _, cd := range ssax.DominatingConds(r.Block()) {
			op, x, y, isCmp := ssax.CmpOp(cd.Val)
			if !isCmp {
				continue
			}
			if !cd.Truth {
				op = ssax.Negate(op)
			}
			if x == ssa.Value(modeP) {
				if k, isC := ssax.ConstInt(y); isC && op == token.EQL {
					mode = modes[k]
					nmode++
				}
				continue
			}
			zy, isZy := ssax.ConstInt(y)
			switch {
			case isMarker(x) && isZy && zy == 0 && op == token.EQL:
				cond = "no-line-break"
			case isMarker(x) && isZy && zy == 0 && (op == token.GTR || op == token.NEQ):
				cond = "line-break-seen"
			case x == curV && op == token.GTR && isStartCursor(y, posP):
				cond = "run-non-empty"
			case isStartCursor(x, posP) && op == token.LSS && y == curV:
				cond = "run-non-empty"
			}
		}
		kind := posKind(ne.Call.Args[0])
		site := fmt.Sprintf("%s error return @%s", name, c.P.InstrPos(r))
		w, known := want[mode]
		switch {
		case nmode != 1 || mode == "":
			c.R.Violation(ra, name+" error return without a mode", name, c.P.InstrPos(r), "this whitespace error is not selected by exactly one `wsMode == <constant>` test: it can fire in a mode that allows the run")
		case !known:
			c.R.Violation(ra, name+" error in mode "+mode, name, c.P.InstrPos(r), "mode "+mode+" must never produce a whitespace error (spaces-and-newlines accepts anything)")
		case kind != w[0] || cond != w[1]:
			c.R.Violation(ra, name+" row "+mode, name, c.P.InstrPos(r), fmt.Sprintf("mode %s reports its error at position kind %q under condition %q; the statement prescribes %q under %q", mode, kind, cond, w[0], w[1]))
		case covered[mode]:
			c.R.Violation(ra, name+" duplicate row "+mode, name, c.P.InstrPos(r), "mode "+mode+" has two error returns")
		default:
			if prev, dup := errVars[evar]; dup && prev != mode {
				c.R.Violation(ra, name+" shared error variable "+evar, name, c.P.InstrPos(r), "modes "+prev+" and "+mode+" report the same error variable: the message does not identify the violated mode")
			}
			errVars[evar] = mode
			covered[mode] = true
			c.R.Hold(ra, site, fmt.Sprintf("%s -> %s at %s when %s", mode, evar, kind, cond))
		}
	}
	var ms []string
	for _, n := range modes {
		ms = append(ms, n)
	}
	sort.Strings(ms)
	for _, m := range ms {
		if _, needs := want[m]; needs && !covered[m] {
			c.R.Violation(ra, name+" missing row "+m, name, c.P.Pos(fn.Pos()), "mode "+m+" has no error return: runs that violate it are accepted")
		}
		if _, needs := want[m]; !needs {
			c.R.Hold(ra, name+" mode "+m, "never an error")
		}
	}
	// R10b alphabet: fold the loop's conditions for each of the 256 byte values
	loopHead := curPhi.Block()
	all, nl := map[int64]bool{}, map[int64]bool{}
	var markBlock *ssa.BasicBlock
	for _, e := range marker.Edges {
		for _, l := range ssax.Leaves(e) {
			if l == ssa.Value(marker) {
				continue
			}
			if _, isC := l.(*ssa.Const); isC {
				continue
			}
			if in, ok := l.(ssa.Instruction); ok {
				markBlock = in.Block()
			}
		}
	}
	isByte := func(v ssa.Value) bool { return isByteAtCursor(v, curPhi) }
	for v := int64(0); v < 256; v++ {
		o := loopByteOutcome(loopHead, isByte, v, markBlock)
		if o.continues && !o.rejected {
			all[v] = true
		}
		if o.marks {
			nl[v] = true
		}
	}
	wantAll := map[int64]bool{0x20: true, 0x09: true, 0x0A: true, 0x0C: true}
	wantNl := map[int64]bool{0x0A: true, 0x0C: true}
	if sameSet(all, wantAll) {
		c.R.Hold(rb, name+" skipped alphabet", "{0x20, 0x09, 0x0A, 0x0C}")
	} else {
		c.R.Violation(rb, name+" skipped alphabet", loopName, c.P.Pos(curPhi.Parent().Pos()), fmt.Sprintf("the loop skips bytes %v; the statement says exactly space, tab, line feed, form feed", setStr(all)))
	}
	if sameSet(nl, wantNl) {
		c.R.Hold(rb, name+" line-break alphabet", "{0x0A, 0x0C}")
	} else {
		c.R.Violation(rb, name+" line-break alphabet", name, c.P.Pos(fn.Pos()), fmt.Sprintf("line breaks recognised: %v; the statement says line feed and form feed", setStr(nl)))
	}
	// the marker is set only while unset, to a reader position of the current cursor
	okSet := false
	for _, e := range marker.Edges {
		for _, l := range ssax.Leaves(e) {
			cl, ok := l.(ssa.Instruction)
			if !ok || l == ssa.Value(marker) {
				continue
			}
			if _, isPhi := l.(*ssa.Phi); isPhi {
				continue
			}
			for _, cd := range ssax.DominatingConds(cl.Block()) {
				op, x, y, isCmp := ssax.CmpOp(cd.Val)
				if !isCmp {
					continue
				}
				if !cd.Truth {
					op = ssax.Negate(op)
				}
				if zy, isZ := ssax.ConstInt(y); isZ && zy == 0 && (isMarker(x) || x == ssa.Value(marker)) && op == token.EQL {
					okSet = true
				}
			}
		}
	}
	// sentinel soundness: 0 means 'no line break seen', so no value assigned to the marker may be 0
	for _, e := range marker.Edges {
		for _, l := range ssax.Leaves(e) {
			if l == ssa.Value(marker) {
				continue
			}
			if k, isC := ssax.ConstInt(l); isC && k == 0 {
				continue
			}
			nonZero := false
			switch x := l.(type) {
			case *ssa.Call:
				// a global position: file offsets start at 1 (NewFile, NewFileSet), so it is never 0
				if sc := x.Call.StaticCallee(); sc != nil && sc.Name() == "Pos" && ssax.NamedIs(x.Type(), "parsley", "Pos") {
					nonZero = true
				}
			case *ssa.BinOp:
				if k, isC := ssax.ConstInt(x.Y); isC && x.Op == token.ADD && k >= 1 && x.X == ssa.Value(curPhi) {
					nonZero = true
				}
			}
			if !nonZero {
				okSet = false
				c.R.Violation(rb, name+" marker sentinel collision", name, c.P.InstrPos(marker), fmt.Sprintf("the line-break marker uses 0 for 'no line break seen' but is assigned %s, which can itself be 0 (a run starting at the first byte of the file): that line break is then treated as not seen — 'spaces' accepts it or reports a later one, 'force-newline' rejects the run", l.String()))
			}
		}
	}
	if okSet {
		c.R.Hold(rb, name+" first-line-break marker", "set to File.Pos(cur) only while still unset")
	} else {
		c.R.Violation(rb, name+" first-line-break marker", name, c.P.Pos(fn.Pos()), "the line-break marker is not set exactly once (while unset) to the position of the current cursor: the 'spaces' mode would report a later line break than the first")
	}
}

func sameSet(a, b map[int64]bool) bool {
	if len(a) != len(b) {
		return false
	}
	for k := range a {
		if !b[k] {
			return false
		}
	}
	return true
}

func setStr(a map[int64]bool) string {
	var ks []int
	for k := range a {
		ks = append(ks, int(k))
	}
	sort.Ints(ks)
	var s []string
	for _, k := range ks {
		s = append(s, fmt.Sprintf("0x%02X", k))
	}
	return "{" + strings.Join(s, ", ") + "}"
}

// isByteAtCursor: v is file.data[cur].
func isByteAtCursor(v ssa.Value, cur *ssa.Phi) bool {
	u, ok := v.(*ssa.UnOp)
	if !ok || u.Op != token.MUL {
		return false
	}
	ia, ok := u.X.(*ssa.IndexAddr)
	if !ok || ia.Index != ssa.Value(cur) {
		return false
	}
	_, f, isLoad := fieldLoad(ia.X)
	return isLoad && f == theModel.Data
}

// isWhitespaceErrVar: the global is initialised in init with parsley.NewWhitespaceError(...).
func (c *Ctx) isWhitespaceErrVar(g *ssa.Global) bool {
	if g.Referrers() != nil {
	}
	for _, fn := range c.P.LibFuncs {
		if !isInit(fn) {
			continue
		}
		for _, b := range fn.Blocks {
			for _, in := range b.Instrs {
				if st, ok := in.(*ssa.Store); ok && st.Addr == ssa.Value(g) {
					if cl, ok := ssax.Strip(st.Val).(*ssa.Call); ok && cl.Call.StaticCallee() != nil && cl.Call.StaticCallee().Name() == "NewWhitespaceError" {
						return true
					}
				}
			}
		}
	}
	return false
}

func (c *Ctx) trimFns() (left, right []*ssa.Function) {
	sw := c.skipWS()
	// the parser functions of the two exported constructors, however they are written
	lb, rb := c.builtBy("text.LeftTrim"), c.builtBy("text.RightTrim")
	if len(lb) > 0 && len(rb) > 0 {
		for _, fn := range c.S.Sorted(c.S.Parser) {
			if lb[fn] {
				left = append(left, fn)
			}
			if rb[fn] {
				right = append(right, fn)
			}
		}
		if len(left) > 0 && len(right) > 0 {
			return
		}
		left, right = nil, nil
	}
	for _, fn := range c.S.ParseRoots {
		if fn.Synthetic != "" || fn.Parent() == nil || sw == nil {
			continue
		}
		callsSkip, callsSet, hasParse := false, false, false
		for _, call := range ssax.Calls(fn) {
			if call.Common().StaticCallee() == sw {
				callsSkip = true
			}
			if sc := call.Common().StaticCallee(); sc != nil && c.name(sc) == "ast.SetReaderPos" {
				callsSet = true
			}
			if ssax.IsParseCall(call) {
				hasParse = true
			}
		}
		if !hasParse {
			continue
		}
		if callsSet {
			right = append(right, fn)
		} else if callsSkip {
			left = append(left, fn)
		}
	}
	return
}

// freeVarLoadOfType: v is a load of a captured variable of the named type.
func freeVarLoad(v ssa.Value) (*ssa.FreeVar, bool) {
	u, ok := ssax.Strip(v).(*ssa.UnOp)
	if !ok || u.Op != token.MUL {
		return nil, false
	}
	fv, ok := u.X.(*ssa.FreeVar)
	return fv, ok
}

func (c *Ctx) ruleR10c(rule string) {
	c.R.Rule(rule, "LeftTrim: sub-parser called at SkipWhitespaces(pos, wsMode).pos; success returns that call's node unchanged; mode violation with inner success returns (nil, _, wsErr)", 2)
	sw := c.skipWS()
	left, _ := c.trimFns()
	if len(left) == 0 {
		c.R.Fail("coverage-lost", rule, "LeftTrim", "-", "-", "no left-trimming parser found")
		return
	}
	for _, fn := range left {
		name := c.name(fn)
		P := ownParam(fn, "parsley", "Pos")
		var skip, w *ssa.Call
		for _, call := range ssax.Calls(fn) {
			cl, ok := call.(*ssa.Call)
			if !ok {
				continue
			}
			if cl.Call.StaticCallee() == sw {
				skip = cl
			}
			if ssax.IsParseCall(cl) {
				w = cl
			}
		}
		if skip == nil || w == nil || P == nil {
			c.R.Undecided(rule, name+" shape", name, c.P.Pos(fn.Pos()), "trimming parser without SkipWhitespaces / wrapped call")
			continue
		}
		_, modeIsCaptured := freeVarLoad(skip.Call.Args[2])
		if !modeIsCaptured && fn.Signature.Recv() != nil {
			// a helper object instead of a closure: the mode is a field of the receiver
			if base, _, isLoad := fieldLoad(ssax.Strip(skip.Call.Args[2])); isLoad && (base == ssa.Value(fn.Params[0]) || isRecvSpill(fn, base)) {
				modeIsCaptured = true
			}
		}
		_, _, wpos := ssax.ParseArgs(w)
		if skip.Call.Args[1] != ssa.Value(P) || !modeIsCaptured || !isExtractOf(wpos, skip, 0) {
			c.R.Violation(rule, name+" skip/call wiring", name, c.P.InstrPos(w), "the sub-parser is not called at the position returned by SkipWhitespaces(own pos, the constructor's wsMode): the token would not start right after the permitted whitespace")
		} else {
			c.R.Hold(rule, name+" wiring @"+c.P.InstrPos(w), "p.Parse at SkipWhitespaces(pos, wsMode)")
		}
		wsErr := ssax.Extracts(skip, 1)
		bad := false
		walkPaths(fn, isReturn, func(p *pathState, in ssa.Instruction) {
			r := in.(*ssa.Return)
			if len(r.Results) != 3 || bad {
				return
			}
			errV := p.resolve(r.Results[2])
			ws := nsUnknown
			for _, e := range wsErr {
				ws = p.eval(e)
			}
			if !ssax.IsNilConst(errV) && p.eval(errV) != nsNonNil && !ssax.IsNilConst(p.resolve(r.Results[0])) && ws != nsNil {
				// the sub-parser's results are handed on without knowing that it failed: if it succeeded, the mode
				// violation recorded in wsErr is lost
				bad = true
				c.R.Violation(rule, name+" may succeed despite mode violation", name, c.P.InstrPos(r), "a path returns the sub-parser's node with an error that may be nil while the whitespace error is not known to be nil: a run that violates the mode (e.g. force-newline with an empty run) is accepted")
				return
			}
			if ssax.IsNilConst(errV) {
				// success: node must be the wrapped call's node, and the run must have satisfied the mode
				if !isExtractOf(p.resolve(r.Results[0]), w, 0) {
					bad = true
					c.R.Violation(rule, name+" success returns other node", name, c.P.InstrPos(r), "on success LeftTrim returns something else than the node its sub-parser returned: the token does not keep its own start and value")
				} else if ws != nsNil {
					bad = true
					c.R.Violation(rule, name+" success despite mode violation", name, c.P.InstrPos(r), "a path returns success although the whitespace run may violate the mode (wsErr not known to be nil)")
				}
			}
		})
		if !bad {
			c.R.Hold(rule, name+" returns", "success = the sub-parser's own node with wsErr == nil")
		}
	}
}

func (c *Ctx) ruleR10d(rule string) {
	c.R.Rule(rule, "SetReaderPos implementations rewrite only the field ReaderPos() reads with f(old); RightTrim uses only ast.SetReaderPos with f(p) = SkipWhitespaces(p, wsMode).pos and fails with wsErr", 11)
	rps := c.lookupIface("ast", "ReaderPosSetter")
	n := 0
	for _, fn := range c.P.LibFuncs {
		if fn.Synthetic != "" || fn.Name() != "SetReaderPos" || fn.Signature.Recv() == nil || rps == nil || !types.Implements(fn.Signature.Recv().Type(), rps) {
			continue
		}
		pt, isPtr := fn.Signature.Recv().Type().(*types.Pointer)
		if !isPtr {
			// value receivers: a slice type delegates element-wise and a position-based type has nothing to move; a
			// struct received by value would mutate a copy, so right-trimming would silently not move the node's end
			if _, isStruct := fn.Signature.Recv().Type().Underlying().(*types.Struct); isStruct {
				n++
				c.R.Violation(rule, c.name(fn)+" on a value receiver", c.name(fn), c.P.Pos(fn.Pos()), "SetReaderPos is declared on a struct value receiver: it rewrites a copy, so a right-trimmed token keeps its old end and the whitespace after it is never skipped")
			}
			continue
		}
		n++
		name := c.name(fn)
		// the field ReaderPos() returns
		var readField string
		for _, g := range c.P.LibFuncs {
			if g.Name() == "ReaderPos" && g.Synthetic == "" && g.Signature.Recv() != nil && types.Identical(g.Signature.Recv().Type(), pt) {
				for _, r := range ssax.Returns(g) {
					if _, f, ok := fieldLoad(r.Results[0]); ok {
						readField = f
					}
				}
			}
		}
		stores := 0
		good := readField != ""
		for _, b := range fn.Blocks {
			for _, in := range b.Instrs {
				st, ok := in.(*ssa.Store)
				if !ok {
					continue
				}
				stores++
				fa, ok := st.Addr.(*ssa.FieldAddr)
				if !ok || fieldVar(fa).Name() != readField || fa.X != ssa.Value(fn.Params[0]) {
					good = false
					continue
				}
				cl, ok := st.Val.(*ssa.Call)
				if !ok || cl.Call.Value != ssa.Value(fn.Params[1]) || len(cl.Call.Args) != 1 {
					good = false
					continue
				}
				if _, f, ok := fieldLoad(cl.Call.Args[0]); !ok || f != readField {
					good = false
				}
			}
		}
		if good && stores == 1 {
			c.R.Hold(rule, name, "only "+readField+" = f("+readField+")")
		} else {
			c.R.Violation(rule, name+" moves more than the end", name, c.P.Pos(fn.Pos()), fmt.Sprintf("SetReaderPos must rewrite exactly the field ReaderPos() reads (%q) with f(its old value); found %d store(s): a right-trimmed token would lose its own start or value", readField, stores))
		}
	}
	if n < 9 {
		c.R.Fail("coverage-lost", rule, "SetReaderPos implementations", "-", "-", fmt.Sprintf("%d pointer-receiver implementations of ast.ReaderPosSetter found, 10 confirmed by reading", n))
	}
	sw := c.skipWS()
	_, right := c.trimFns()
	if len(right) == 0 {
		c.R.Fail("coverage-lost", rule, "RightTrim", "-", "-", "no right-trimming parser found")
		return
	}
	for _, fn := range right {
		name := c.name(fn)
		var w, set *ssa.Call
		for _, call := range ssax.Calls(fn) {
			cl, ok := call.(*ssa.Call)
			if !ok {
				continue
			}
			if ssax.IsParseCall(cl) {
				w = cl
			}
			if sc := cl.Call.StaticCallee(); sc != nil && c.name(sc) == "ast.SetReaderPos" {
				set = cl
			}
		}
		setFn := fn
		nodeOK := set != nil && isExtractOf(set.Call.Args[0], w, 0)
		var errFromHelper ssa.Value
		if w != nil && set == nil {
			// the end may be moved by a helper that is handed the sub-parser's node
			for _, call := range ssax.Calls(fn) {
				hc, ok := call.(*ssa.Call)
				if !ok || hc.Call.IsInvoke() {
					continue
				}
				h := hc.Call.StaticCallee()
				if h == nil || !c.P.InLib(h) || len(h.Blocks) == 0 {
					continue
				}
				for _, k := range ssax.Calls(h) {
					kc, ok := k.(*ssa.Call)
					if !ok || kc.Call.StaticCallee() == nil || c.name(kc.Call.StaticCallee()) != "ast.SetReaderPos" {
						continue
					}
					for i, hp := range h.Params {
						if kc.Call.Args[0] == ssa.Value(hp) && i < len(hc.Call.Args) && isExtractOf(hc.Call.Args[i], w, 0) {
							set, setFn, nodeOK = kc, h, true
							// the helper's error result as RightTrim sees it
							if tup, ok := hc.Type().(*types.Tuple); ok {
								for ri := 0; ri < tup.Len(); ri++ {
									if isErrorType(tup.At(ri).Type()) {
										for _, e := range ssax.Extracts(hc, ri) {
											errFromHelper = e
										}
									}
								}
							}
						}
					}
				}
			}
		}
		if w == nil || set == nil {
			continue
		}
		if !nodeOK {
			c.R.Violation(rule, name+" trims another node", name, c.P.InstrPos(set), "ast.SetReaderPos is applied to something else than the sub-parser's result")
		}
		mc, ok := set.Call.Args[1].(*ssa.MakeClosure)
		if !ok {
			c.R.Undecided(rule, name+" mover", name, c.P.InstrPos(set), "the position mover is not a closure literal or a method value")
			continue
		}
		// the mover: a closure literal, or a method value (bound-method wrapper around a method of a helper object)
		g := mc.Fn.(*ssa.Function)
		var recv *ssa.Parameter // receiver of the method behind a method value
		if g.Synthetic != "" && len(mc.Bindings) == 1 {
			var m *ssa.Function
			for _, call := range ssax.Calls(g) {
				if sc := call.Common().StaticCallee(); sc != nil && c.P.InLib(sc) && sc.Signature.Recv() != nil {
					m = sc
				}
			}
			if m == nil || len(m.Params) != 2 {
				c.R.Undecided(rule, name+" mover", name, c.P.InstrPos(set), "the method value handed to ast.SetReaderPos could not be resolved to a library method")
				continue
			}
			g, recv = m, m.Params[0]
		}
		isConfig := func(v ssa.Value) bool {
			if _, cap := freeVarLoad(v); cap {
				return true
			}
			if base, _, isLoad := fieldLoad(ssax.Strip(v)); isLoad && recv != nil && base == ssa.Value(recv) {
				return true
			}
			return false
		}
		posParam := g.Params[len(g.Params)-1]
		okMove := len(g.Params) == 1 && recv == nil || len(g.Params) == 2 && recv != nil
		var swCall *ssa.Call
		for _, r := range ssax.Returns(g) {
			e, isE := ssax.Strip(r.Results[0]).(*ssa.Extract)
			if !isE || e.Index != 0 {
				okMove = false
				continue
			}
			cl, isC := e.Tuple.(*ssa.Call)
			if !isC || cl.Call.StaticCallee() != sw || len(cl.Call.Args) != 3 || cl.Call.Args[1] != ssa.Value(posParam) {
				okMove = false
				continue
			}
			if !isConfig(cl.Call.Args[2]) {
				okMove = false
			}
			swCall = cl
		}
		if okMove {
			c.R.Hold(rule, name+" mover "+c.name(g), "returns SkipWhitespaces(p, wsMode).pos of its own argument p")
		} else {
			c.R.Violation(rule, name+" mover", c.name(g), c.P.Pos(g.Pos()), "the function handed to ast.SetReaderPos does not return SkipWhitespaces(p, wsMode) of ITS OWN argument p: alternatives that end at different positions all receive one end, so every alternative after the first gets the wrong end")
		}
		// where the mover records the whitespace error: a captured variable, or a field of the helper object
		var errLoc ssa.Value // in fn's terms
		errField := -1
		if swCall != nil {
			for _, e := range ssax.Extracts(swCall, 1) {
				if e.Referrers() == nil {
					continue
				}
				for _, r := range *e.Referrers() {
					st, ok := r.(*ssa.Store)
					if !ok || st.Val != ssa.Value(e) {
						continue
					}
					switch a := st.Addr.(type) {
					case *ssa.FreeVar:
						for i, fv := range g.FreeVars {
							if fv == a && i < len(mc.Bindings) {
								errLoc = mc.Bindings[i]
							}
						}
					case *ssa.FieldAddr:
						if recv != nil && a.X == ssa.Value(recv) {
							errLoc, errField = mc.Bindings[0], a.Field
						}
					}
				}
			}
		}
		isErrLoadIn := func(v ssa.Value) bool {
			u, ok := ssax.Strip(v).(*ssa.UnOp)
			if !ok || u.Op != token.MUL || errLoc == nil {
				return false
			}
			if errField < 0 {
				return u.X == errLoc
			}
			fa, ok := u.X.(*ssa.FieldAddr)
			return ok && fa.X == errLoc && fa.Field == errField
		}
		isErrLoad := isErrLoadIn
		if setFn != fn {
			// the helper hands the recorded error back; RightTrim sees it as that result of the call
			handsBack := errFromHelper != nil
			for _, r := range ssax.Returns(setFn) {
				found := false
				for _, rv := range r.Results {
					if isErrLoadIn(rv) {
						found = true
					}
				}
				if !found {
					handsBack = false
				}
			}
			isErrLoad = func(v ssa.Value) bool { return handsBack && ssax.Strip(v) == errFromHelper }
		}
		// on a whitespace error: (nil, _, wsErr)
		okErr := false
		for _, r := range ssax.Returns(fn) {
			if len(r.Results) == 3 && ssax.IsNilConst(ssax.Strip(r.Results[0])) && isErrLoad(r.Results[2]) {
				for _, cd := range ssax.DominatingConds(r.Block()) {
					if x, nilIfTrue, isNT := nilTest(cd.Val); isNT && cd.Truth != nilIfTrue && isErrLoad(x) {
						okErr = true
					}
				}
			}
		}
		if okErr {
			c.R.Hold(rule, name+" mode violation", "returns (nil, _, wsErr)")
		} else {
			c.R.Violation(rule, name+" ignores mode violation", name, c.P.Pos(fn.Pos()), "RightTrim does not fail with the whitespace error recorded by the mover")
		}
	}
}

func freeVarOrAllocLoad(v ssa.Value) (ssa.Value, bool) {
	u, ok := ssax.Strip(v).(*ssa.UnOp)
	if !ok || u.Op != token.MUL {
		return nil, false
	}
	switch u.X.(type) {
	case *ssa.Alloc, *ssa.FreeVar:
		return u.X, true
	}
	return nil, false
}

func (c *Ctx) ruleR10e(rule string) {
	c.R.Rule(rule, "parsley.Parse (and the helpers it delegates to) replaces the returned error by the context's furthest error only behind the false edge of IsWhitespaceError(the returned error)", 1)
	root := c.P.Func("parsley.Parse")
	if root == nil {
		c.R.Fail("coverage-lost", rule, "parsley.Parse", "-", "-", "parsley.Parse not found")
		return
	}
	// Parse and the library helpers it statically calls (an extracted furthestError(...) must not hide the rule's anchor)
	scope := []*ssa.Function{root}
	seenFn := map[*ssa.Function]bool{root: true}
	for i := 0; i < len(scope) && i < 40; i++ {
		for _, call := range ssax.Calls(scope[i]) {
			sc := call.Common().StaticCallee()
			if sc == nil || seenFn[sc] || !c.P.InLib(sc) || sc.Pkg != root.Pkg || ssax.IsParserSig(sc.Signature) {
				continue
			}
			// only helpers that deal in errors
			hasErr := false
			for _, p := range sc.Params {
				if isErrorType(p.Type()) {
					hasErr = true
				}
			}
			// ... and hand an error back (a parsley.Error, or the decorated plain error Parse returns)
			retErr := false
			for i := 0; i < sc.Signature.Results().Len(); i++ {
				t := sc.Signature.Results().At(i).Type()
				if isErrorType(t) || types.Identical(t, types.Universe.Lookup("error").Type()) {
					retErr = true
				}
			}
			if hasErr && retErr {
				seenFn[sc] = true
				scope = append(scope, sc)
			}
		}
	}
	n := 0
	for _, fn := range scope {
		for _, call := range ssax.Calls(fn) {
			cl, ok := call.(*ssa.Call)
			if !ok || cl.Call.StaticCallee() == nil || cl.Call.StaticCallee().Name() != "Error" || cl.Call.StaticCallee().Signature.Recv() == nil {
				continue
			}
			if !ssax.PtrNamedIs(cl.Call.StaticCallee().Signature.Recv().Type(), "parsley", "Context") {
				continue
			}
			// uses of the context error as a replacement
			type use struct {
				blk      *ssa.BasicBlock
				replaced []ssa.Value
			}
			var uses []use
			if cl.Referrers() != nil {
				for _, r := range *cl.Referrers() {
					switch x := r.(type) {
					case *ssa.Phi:
						var others []ssa.Value
						idx := -1
						for i, e := range x.Edges {
							if e == ssa.Value(cl) {
								idx = i
							} else if !ssax.IsNilConst(e) {
								others = append(others, e)
							}
						}
						if idx >= 0 && len(others) > 0 {
							uses = append(uses, use{x.Block().Preds[idx], others})
						}
					case *ssa.Return:
						var others []ssa.Value
						for _, r2 := range ssax.Returns(fn) {
							if r2 != x && len(r2.Results) == 1 {
								// what the helper returns when it does not take the context's error: the error it was given
								// (possibly after the no-match fallback has been merged into it)
								if v := ssax.Strip(r2.Results[0]); !ssax.IsNilConst(v) && v != ssa.Value(cl) && isErrorType(v.Type()) {
									others = append(others, v)
								}
							}
						}
						if len(others) > 0 {
							uses = append(uses, use{x.Block(), others})
						}
					}
				}
			}
			for _, u := range uses {
				guard, isOverride := false, false
				for _, cd := range ssax.DominatingConds(u.blk) {
					if k, ok := cd.Val.(*ssa.Call); ok && k.Call.StaticCallee() != nil && k.Call.StaticCallee().Name() == "IsWhitespaceError" {
						arg := ssax.Strip(k.Call.Args[0])
						for _, rv := range u.replaced {
							if arg == ssax.Strip(rv) && !cd.Truth {
								guard = true
							}
						}
					}
					// the replacement happens because ctxErr.Pos() > err.Pos(): an override of an existing error
					if op, _, _, isCmp := ssax.CmpOp(cd.Val); isCmp && (op == token.GTR || op == token.LSS || op == token.GEQ || op == token.LEQ) {
						isOverride = true
					}
				}
				if !isOverride {
					continue // e.g. the fallback used when the root parser returned neither a node nor an error
				}
				n++
				if guard {
					c.R.Hold(rule, c.name(fn)+" override @"+c.P.InstrPos(cl), "behind !IsWhitespaceError(err) of the error being replaced")
				} else {
					c.R.Violation(rule, c.name(fn)+" overrides whitespace error", c.name(fn), c.P.InstrPos(cl), "the returned error is replaced by the context's furthest error without the false edge of IsWhitespaceError(<that returned error>): a whitespace-mode violation is masked by a later not-found error")
				}
			}
		}
	}
	if n == 0 {
		c.R.Fail("coverage-lost", rule, "parsley.Parse override", "-", "-", "the furthest-error override of parsley.Parse was not recognised in Parse or its helpers")
	}
}

// wsLoopPhis: the loop-carried integer phis of a whitespace-scanning loop: the marker (initialised with 0, the
// 'unset' value) and the cursor.
func wsLoopPhis(fn *ssa.Function) (marker, cur *ssa.Phi) {
	for _, b := range fn.Blocks {
		for _, in := range b.Instrs {
			ph, ok := in.(*ssa.Phi)
			if !ok {
				continue
			}
			back := false
			for i := range ph.Edges {
				if b.Dominates(b.Preds[i]) {
					back = true
				}
			}
			if !back {
				continue
			}
			zeroInit := false
			for _, e := range ph.Edges {
				if k, isC := ssax.ConstInt(e); isC && k == 0 {
					zeroInit = true
				}
			}
			if bt, ok := ph.Type().Underlying().(*types.Basic); ok && bt.Info()&types.IsInteger != 0 {
				if zeroInit {
					marker = ph // initialised with the 'unset' value 0
				} else {
					cur = ph
				}
			}
		}
	}
	return marker, cur
}
