package rules

import (
	"fmt"
	"go/token"
	"go/types"

	"golang.org/x/tools/go/ssa"

	"pv/internal/ssax"
)

// parsley.Walk decided over its paths, so that the way the traversal is written (type switch or comma-ok
// assertions, early returns or a `stopped` variable with break, the loop over the children in Walk or in a
// helper) does not matter. On every path:
//   - once a delegated or recursive walk has returned true nothing else is walked or called and true is returned;
//   - otherwise the callback runs exactly once, on the own node, after every other walk, and its result is returned;
//   - a Walkable node is walked by its own Walk(f); a NonTerminalNode by Walk(child, f) over all of Children().

type walkCalls struct {
	rec, deleg, helper, fcall map[*ssa.Call]bool
	loops                     []*idxLoop
	bad                       []string
	badAt                     []ssa.Instruction
}

func typeAssertOf(v ssa.Value, node ssa.Value) (*ssa.TypeAssert, bool) {
	e, ok := v.(*ssa.Extract)
	if ok {
		ta, ok := e.Tuple.(*ssa.TypeAssert)
		return ta, ok && ta.X == node
	}
	ta, ok := v.(*ssa.TypeAssert)
	return ta, ok && ta.X == node
}

// classifyWalkCalls sorts the calls of g. node may be nil (helper): then delegation and callback calls are violations.
func (c *Ctx) classifyWalkCalls(walk, g *ssa.Function, node, cb ssa.Value, isChildren func(ssa.Value) bool, depth int) *walkCalls {
	w := &walkCalls{rec: map[*ssa.Call]bool{}, deleg: map[*ssa.Call]bool{}, helper: map[*ssa.Call]bool{}, fcall: map[*ssa.Call]bool{}}
	bad := func(at ssa.Instruction, s string) { w.bad = append(w.bad, s); w.badAt = append(w.badAt, at) }
	for _, call := range ssax.Calls(g) {
		cl, ok := call.(*ssa.Call)
		if !ok {
			if call.Common().Value == cb || call.Common().StaticCallee() == walk {
				bad(call, "the walk or the callback is started with go/defer")
			}
			continue
		}
		switch {
		case cl.Call.Value == cb && !cl.Call.IsInvoke():
			if node == nil {
				bad(cl, "the helper invokes the callback directly")
			} else if len(cl.Call.Args) != 1 || cl.Call.Args[0] != node {
				bad(cl, "the callback is invoked on something else than Walk's own node")
			}
			w.fcall[cl] = true
		case cl.Call.StaticCallee() == walk:
			if len(cl.Call.Args) != 2 || cl.Call.Args[1] != cb {
				bad(cl, "the recursive Walk is not given the same callback")
				continue
			}
			u, ok := cl.Call.Args[0].(*ssa.UnOp)
			var loop *idxLoop
			if ok && u.Op == token.MUL {
				if ia, ok := u.X.(*ssa.IndexAddr); ok && isChildren(ia.X) {
					loop = indexLoopOf(ia.Index, ia.X)
				}
			}
			if loop == nil {
				bad(cl, "the recursive Walk does not range over all of node.(NonTerminalNode).Children(): descendants are not (all) visited")
				continue
			}
			w.rec[cl] = true
			w.loops = append(w.loops, loop)
		case cl.Call.IsInvoke() && cl.Call.Method.Name() == "Walk":
			if node == nil {
				continue
			}
			_, isTA := typeAssertOf(cl.Call.Value, node)
			if !isTA || len(cl.Call.Args) != 1 || cl.Call.Args[0] != cb {
				bad(cl, "the Walkable branch does not delegate node.(Walkable).Walk(f)")
				continue
			}
			w.deleg[cl] = true
		default:
			h := cl.Call.StaticCallee()
			if h == nil || h == g || !c.P.InLib(h) || len(h.Blocks) == 0 || depth > 0 {
				continue
			}
			si, fi := -1, -1
			for i, a := range cl.Call.Args {
				if isChildren(a) {
					si = i
				}
				if a == cb {
					fi = i
				}
			}
			// the helper may also be handed the node itself (walkChildren(nonTerminal, f))
			ni := -1
			if node != nil && si < 0 {
				for i, a := range cl.Call.Args {
					if _, isTA := typeAssertOf(a, node); isTA {
						ni = i
					}
				}
			}
			if fi < 0 || (si < 0 && ni < 0) || fi >= len(h.Params) {
				continue
			}
			var hChildren func(ssa.Value) bool
			if si >= 0 {
				hs := h.Params[si]
				hChildren = func(v ssa.Value) bool { return v == ssa.Value(hs) }
			} else {
				hn := h.Params[ni]
				hChildren = func(v ssa.Value) bool {
					ch, ok := v.(*ssa.Call)
					return ok && ch.Call.IsInvoke() && ch.Call.Method.Name() == "Children" && ch.Call.Value == ssa.Value(hn)
				}
			}
			if why := c.walkHelperOK(walk, h, h.Params[fi], hChildren); why != "" {
				bad(cl, "the helper "+c.name(h)+" walking the children: "+why)
				continue
			}
			w.helper[cl] = true
		}
	}
	return w
}

func isWalkNote(n note) (*ssa.Call, bool) {
	if n.in == nil {
		return nil, false
	}
	cl, ok := n.in.(*ssa.Call)
	return cl, ok
}

// walkHelperOK: h(children..., cb) returns true at once when a Walk(child, cb) does, false after all children.
func (c *Ctx) walkHelperOK(walk, h *ssa.Function, cb ssa.Value, isChildren func(ssa.Value) bool) string {
	if res := h.Signature.Results(); res.Len() != 1 {
		return "does not return one bool"
	}
	w := c.classifyWalkCalls(walk, h, nil, cb, isChildren, 1)
	if len(w.bad) > 0 {
		return w.bad[0]
	}
	if len(w.rec) == 0 {
		return "no recursive Walk(child, f) found"
	}
	why := ""
	ok := walkPaths(h, func(in ssa.Instruction) bool {
		if _, isR := in.(*ssa.Return); isR {
			return true
		}
		cl, isC := in.(*ssa.Call)
		return isC && w.rec[cl]
	}, func(p *pathState, in ssa.Instruction) {
		r, isR := in.(*ssa.Return)
		if !isR || why != "" {
			return
		}
		abortAt, exhausted, untested := w.scan(p)
		val, known := boolOnPath(p, r.Results[0])
		switch {
		case untested != nil:
			why = "the result of the walk at " + c.P.InstrPos(untested) + " is ignored"
		case abortAt >= 0:
			if w.callsAfter(p, abortAt) {
				why = "goes on walking after a child's walk returned true"
			} else if !known || !val {
				why = "does not return true when a child's walk returned true"
			}
		default:
			if !exhausted {
				why = "returns at " + c.P.InstrPos(r) + " before all children were walked"
			} else if !known || val {
				why = "does not return false after all children were walked without abort"
			}
		}
	})
	if !ok {
		return "too many paths"
	}
	return why
}

// scan: index in p.notes of the first abort (a walk whose result was tested and came out true), whether a children
// loop was exhausted (or a helper returned false), and a walk call whose result is never tested on this path.
func (w *walkCalls) scan(p *pathState) (abortAt int, exhausted bool, untested *ssa.Call) {
	abortAt = -1
	isWalk := func(v ssa.Value) bool {
		cl, ok := v.(*ssa.Call)
		return ok && (w.rec[cl] || w.deleg[cl] || w.helper[cl])
	}
	pending := map[*ssa.Call]bool{}
	for i, n := range p.notes {
		if cl, ok := isWalkNote(n); ok && isWalk(cl) {
			pending[cl] = true
		}
		if n.ev == nil {
			continue
		}
		if cl, ok := n.ev.cond.(*ssa.Call); ok && isWalk(cl) {
			delete(pending, cl)
			if n.ev.truth && abortAt < 0 {
				abortAt = i
			}
			if !n.ev.truth && w.helper[cl] {
				exhausted = true
			}
		}
		for _, l := range w.loops {
			if n.ev.at == l.test.Block() && n.ev.cond == l.cond && n.ev.truth == l.exhaustedOn {
				exhausted = true
			}
		}
	}
	for cl := range pending {
		untested = cl
	}
	return
}

func (w *walkCalls) callsAfter(p *pathState, idx int) bool {
	for _, n := range p.notes[idx+1:] {
		if cl, ok := isWalkNote(n); ok && (w.rec[cl] || w.deleg[cl] || w.helper[cl] || w.fcall[cl]) {
			return true
		}
	}
	return false
}

func (c *Ctx) walkByPaths(rule string, fn *ssa.Function) {
	node, f := ssa.Value(fn.Params[0]), ssa.Value(fn.Params[1])
	v := func(key, pos, msg string) { c.R.Violation(rule, "parsley.Walk "+key, "parsley.Walk", pos, msg) }
	isChildren := func(x ssa.Value) bool {
		ch, ok := x.(*ssa.Call)
		if !ok || !ch.Call.IsInvoke() || ch.Call.Method.Name() != "Children" {
			return false
		}
		_, isTA := typeAssertOf(ch.Call.Value, node)
		return isTA
	}
	w := c.classifyWalkCalls(fn, fn, node, f, isChildren, 0)
	for i, b := range w.bad {
		v("call", c.P.InstrPos(w.badAt[i]), b)
	}
	if len(w.bad) > 0 {
		return
	}
	if len(w.fcall) == 0 {
		v("callback count", c.P.Pos(fn.Pos()), "the callback is never invoked on the node")
		return
	}
	if len(w.rec)+len(w.helper) == 0 {
		v("no recursion", c.P.Pos(fn.Pos()), "no recursive Walk(child, f) over the children of a NonTerminalNode found: descendants are not visited (calling f(child) instead visits one level only)")
		return
	}
	if len(w.deleg) == 0 {
		v("no delegation", c.P.Pos(fn.Pos()), "no delegation to Walkable.Walk found")
		return
	}
	// which interface does an assertion test?
	hasMethod := func(t types.Type, name string) bool {
		it, ok := t.Underlying().(*types.Interface)
		if !ok {
			return false
		}
		for i := 0; i < it.NumMethods(); i++ {
			if it.Method(i).Name() == name {
				return true
			}
		}
		return false
	}
	seen := map[string]bool{}
	report := func(key, pos, msg string) {
		if !seen[key+pos] {
			seen[key+pos] = true
			v(key, pos, msg)
		}
	}
	npaths := 0
	ok := walkPaths(fn, func(in ssa.Instruction) bool {
		if _, isR := in.(*ssa.Return); isR {
			return true
		}
		cl, isC := in.(*ssa.Call)
		return isC && (w.rec[cl] || w.deleg[cl] || w.helper[cl] || w.fcall[cl])
	}, func(p *pathState, in ssa.Instruction) {
		r, isR := in.(*ssa.Return)
		if !isR {
			return
		}
		npaths++
		pos := c.P.InstrPos(r)
		abortAt, exhausted, untested := w.scan(p)
		if untested != nil && p.resolve(r.Results[0]) == ssa.Value(untested) {
			report("callback skipped", c.P.InstrPos(untested), "Walk returns the result of this walk directly: when it is false (no abort) the callback never runs on the node itself, so the node is not visited")
			return
		}
		if untested != nil {
			report("ignored abort", c.P.InstrPos(untested), "the result of this walk is not tested: a callback asking to stop inside the subtree does not stop the traversal")
			return
		}
		// the assertions taken on this path
		isWalkable, isNonTerminal := false, false
		for _, ev := range p.events {
			e, ok := ev.cond.(*ssa.Extract)
			if !ok || e.Index != 1 {
				continue
			}
			ta, ok := e.Tuple.(*ssa.TypeAssert)
			if !ok || ta.X != node || !ev.truth {
				continue
			}
			if hasMethod(ta.AssertedType, "Walk") {
				isWalkable = true
			} else if hasMethod(ta.AssertedType, "Children") {
				isNonTerminal = true
			}
		}
		var fcalls, walks []*ssa.Call
		lastWalk, firstF := -1, -1
		for i, n := range p.notes {
			cl, ok := isWalkNote(n)
			if !ok {
				continue
			}
			if w.fcall[cl] {
				fcalls = append(fcalls, cl)
				if firstF < 0 {
					firstF = i
				}
			} else {
				walks = append(walks, cl)
				lastWalk = i
			}
		}
		delegated := false
		for _, cl := range walks {
			if w.deleg[cl] {
				delegated = true
			}
		}
		if isWalkable && !delegated {
			report("walkable delegation", pos, "a path on which the node is Walkable does not delegate to node.(Walkable).Walk(f)")
		}
		if abortAt >= 0 {
			if w.callsAfter(p, abortAt) {
				report("abort", pos, "a child's walk returning true does not make the walk return true immediately: it goes on after the callback asked to stop")
			}
			if val, known := boolOnPath(p, r.Results[0]); !known || !val {
				report("result", pos, "Walk returns something else than true after a walk below it was aborted")
			}
			return
		}
		if isNonTerminal && !isWalkable && !exhausted {
			report("no recursion", pos, "a path on which the node is a NonTerminalNode reaches the callback without Walk(child, f) over all of its children: descendants are not visited")
		}
		if len(fcalls) != 1 {
			report("callback count", pos, fmt.Sprintf("the callback is invoked %d times on a path without abort; exactly one f(node) is expected (each node visited exactly once)", len(fcalls)))
			return
		}
		if lastWalk > firstF {
			report("order", pos, "a child is walked after the callback ran on the node: not post-order")
		}
		rv := p.resolve(r.Results[0])
		if rv != ssa.Value(fcalls[0]) {
			// a constant equal to what the callback returned on this path is the same thing
			val, known := boolOnPath(p, r.Results[0])
			fval, fknown := p.bools[fcalls[0]]
			if !(known && fknown && val == fval) {
				report("result", pos, "Walk returns something else than true (abort) or the callback's own result")
			}
		}
	})
	if !ok {
		c.R.Undecided(rule, "parsley.Walk paths", "parsley.Walk", c.P.Pos(fn.Pos()), "path budget exhausted")
		return
	}
	if len(seen) == 0 {
		c.R.Hold(rule, "parsley.Walk paths", fmt.Sprintf("%d paths: abort returns true at once; otherwise f(node) once, last, and its result returned", npaths))
		for cl := range w.fcall {
			c.R.Hold(rule, "parsley.Walk f(node) @"+c.P.InstrPos(cl), "on the own node")
		}
		for cl := range w.rec {
			c.R.Hold(rule, "parsley.Walk -> Walk(child, f) @"+c.P.InstrPos(cl), "ranges over all of Children(), aborts on true")
		}
		for cl := range w.helper {
			c.R.Hold(rule, "parsley.Walk -> helper @"+c.P.InstrPos(cl), "a helper walks all of Children() and aborts on true")
		}
		for cl := range w.deleg {
			c.R.Hold(rule, "parsley.Walk -> n.Walk(f) @"+c.P.InstrPos(cl), "Walkable delegation, aborts on true")
		}
	}
}
