package rules

import (
	"fmt"
	"go/token"
	"go/types"

	"golang.org/x/tools/go/ssa"

	"pv/internal/ssax"
)

// parsley.Walk decided over its paths, so that the way the traversal is written (type switch or comma-ok
// assertions, early returns or a `stopped` variable with break, the loop over the children in Walk or in a
// helper) does not matter. On every path:
//   - once a delegated or recursive walk has returned true nothing else is walked or called and true is returned;
//   - otherwise the callback runs exactly once, on the own node, after every other walk, and its result is returned;
//   - a Walkable node is walked by its own Walk(f); a NonTerminalNode by Walk(child, f) over all of Children().

type walkCalls struct {
	rec, deleg, helper, fcall map[*ssa.Call]bool
	coversNode                map[*ssa.Call]bool // helper calls that walk everything below the node they are given
	loops                     []*idxLoop
	bad                       []string
	badAt                     []ssa.Instruction
}

func typeAssertOf(v ssa.Value, node ssa.Value) (*ssa.TypeAssert, bool) {
	e, ok := v.(*ssa.Extract)
	if ok {
		ta, ok := e.Tuple.(*ssa.TypeAssert)
		return ta, ok && ta.X == node
	}
	ta, ok := v.(*ssa.TypeAssert)
	return ta, ok && ta.X == node
}

func ifaceHasMethod(t types.Type, name string) bool {
	it, ok := t.Underlying().(*types.Interface)
	if !ok {
		return false
	}
	for i := 0; i < it.NumMethods(); i++ {
		if it.Method(i).Name() == name {
			return true
		}
	}
	return false
}

// childrenOf: a predicate recognising node.(NonTerminalNode).Children() for the given node value.
func childrenOf(node ssa.Value) func(ssa.Value) bool {
	return func(x ssa.Value) bool {
		ch, ok := x.(*ssa.Call)
		if !ok || !ch.Call.IsInvoke() || ch.Call.Method.Name() != "Children" {
			return false
		}
		if ch.Call.Value == node {
			return true
		}
		_, isTA := typeAssertOf(ch.Call.Value, node)
		return isTA
	}
}

// classifyWalkCalls sorts the calls of g. node is the value whose subtree g walks (nil when g is only handed a list
// of children); in helper mode the callback must not be invoked.
func (c *Ctx) classifyWalkCalls(walk, g *ssa.Function, node, cb ssa.Value, isChildren func(ssa.Value) bool, depth int, helperMode bool) *walkCalls {
	w := &walkCalls{rec: map[*ssa.Call]bool{}, deleg: map[*ssa.Call]bool{}, helper: map[*ssa.Call]bool{}, fcall: map[*ssa.Call]bool{}, coversNode: map[*ssa.Call]bool{}}
	bad := func(at ssa.Instruction, s string) { w.bad = append(w.bad, s); w.badAt = append(w.badAt, at) }
	for _, call := range ssax.Calls(g) {
		cl, ok := call.(*ssa.Call)
		if !ok {
			if call.Common().Value == cb || call.Common().StaticCallee() == walk {
				bad(call, "the walk or the callback is started with go/defer")
			}
			continue
		}
		switch {
		case cl.Call.Value == cb && !cl.Call.IsInvoke():
			if helperMode {
				bad(cl, "the helper invokes the callback directly")
			} else if len(cl.Call.Args) != 1 || cl.Call.Args[0] != node {
				bad(cl, "the callback is invoked on something else than Walk's own node")
			}
			w.fcall[cl] = true
		case cl.Call.StaticCallee() == walk:
			if len(cl.Call.Args) != 2 || cl.Call.Args[1] != cb {
				bad(cl, "the recursive Walk is not given the same callback")
				continue
			}
			u, ok := cl.Call.Args[0].(*ssa.UnOp)
			var loop *idxLoop
			if ok && u.Op == token.MUL {
				if ia, ok := u.X.(*ssa.IndexAddr); ok && isChildren != nil && isChildren(ia.X) {
					loop = indexLoopOf(ia.Index, ia.X)
				}
			}
			if loop == nil {
				bad(cl, "the recursive Walk does not range over all of node.(NonTerminalNode).Children(): descendants are not (all) visited")
				continue
			}
			w.rec[cl] = true
			w.loops = append(w.loops, loop)
		case cl.Call.IsInvoke() && cl.Call.Method.Name() == "Walk":
			if node == nil {
				continue
			}
			_, isTA := typeAssertOf(cl.Call.Value, node)
			if !isTA || len(cl.Call.Args) != 1 || cl.Call.Args[0] != cb {
				bad(cl, "the Walkable branch does not delegate node.(Walkable).Walk(f)")
				continue
			}
			w.deleg[cl] = true
		default:
			h := cl.Call.StaticCallee()
			if h == nil || h == g || cl.Call.IsInvoke() || !c.P.InLib(h) || len(h.Blocks) == 0 || depth > 1 {
				continue
			}
			si, fi, ni, ti := -1, -1, -1, -1
			for i, a := range cl.Call.Args {
				switch {
				case isChildren != nil && isChildren(a):
					si = i
				case a == cb:
					fi = i
				case node != nil && a == node:
					ni = i
				case node != nil:
					if _, isTA := typeAssertOf(a, node); isTA {
						ti = i
					}
				}
			}
			if fi < 0 || fi >= len(h.Params) || (si < 0 && ni < 0 && ti < 0) {
				continue
			}
			var why string
			switch {
			case si >= 0:
				hs := h.Params[si]
				why = c.walkHelperOK(walk, h, h.Params[fi], nil, func(v ssa.Value) bool { return v == ssa.Value(hs) }, depth+1)
			case ni >= 0:
				hn := ssa.Value(h.Params[ni])
				why = c.walkHelperOK(walk, h, h.Params[fi], hn, childrenOf(hn), depth+1)
				if why == "" {
					w.coversNode[cl] = true
				}
			default:
				// handed the node already asserted to be a NonTerminalNode: walks its children
				hn := ssa.Value(h.Params[ti])
				why = c.walkHelperOK(walk, h, h.Params[fi], nil, childrenOf(hn), depth+1)
			}
			if why != "" {
				bad(cl, "the helper "+c.name(h)+" walking below the node: "+why)
				continue
			}
			w.helper[cl] = true
		}
	}
	return w
}

func isWalkNote(n note) (*ssa.Call, bool) {
	if n.in == nil {
		return nil, false
	}
	cl, ok := n.in.(*ssa.Call)
	return cl, ok
}

func (w *walkCalls) isWalk(cl *ssa.Call) bool { return w.rec[cl] || w.deleg[cl] || w.helper[cl] }

func (w *walkCalls) want(in ssa.Instruction) bool {
	if _, isR := in.(*ssa.Return); isR {
		return true
	}
	cl, isC := in.(*ssa.Call)
	return isC && (w.isWalk(cl) || w.fcall[cl])
}

// assertionsOn: which interfaces the path has established for node.
func assertionsOn(p *pathState, node ssa.Value) (isWalkable, isNonTerminal bool) {
	for _, ev := range p.events {
		e, ok := ev.cond.(*ssa.Extract)
		if !ok || e.Index != 1 {
			continue
		}
		ta, ok := e.Tuple.(*ssa.TypeAssert)
		if !ok || ta.X != node || !ev.truth {
			continue
		}
		if ifaceHasMethod(ta.AssertedType, "Walk") {
			isWalkable = true
		} else if ifaceHasMethod(ta.AssertedType, "Children") {
			isNonTerminal = true
		}
	}
	return
}

// walkHelperOK: h walks below a node (node != nil: Walkable delegation or all children) or over a list of children
// (node == nil), returning true at once when a walk below does and false after everything was walked; it never
// invokes the callback itself.
func (c *Ctx) walkHelperOK(walk, h *ssa.Function, cb ssa.Value, node ssa.Value, isChildren func(ssa.Value) bool, depth int) string {
	if res := h.Signature.Results(); res.Len() != 1 {
		return "does not return one bool"
	}
	w := c.classifyWalkCalls(walk, h, node, cb, isChildren, depth, true)
	if len(w.bad) > 0 {
		return w.bad[0]
	}
	if len(w.rec)+len(w.helper) == 0 {
		return "no recursive Walk(child, f) found"
	}
	why := ""
	ok := walkPaths(h, w.want, func(p *pathState, in ssa.Instruction) {
		r, isR := in.(*ssa.Return)
		if !isR || why != "" {
			return
		}
		abortAt, exhausted, untested := w.scan(p)
		val, known := boolOnPath(p, r.Results[0])
		isWalkable, isNonTerminal := false, false
		if node != nil {
			isWalkable, isNonTerminal = assertionsOn(p, node)
		}
		delegated := false
		for _, n := range p.notes {
			if cl, ok := isWalkNote(n); ok && w.deleg[cl] {
				delegated = true
			}
		}
		if isWalkable && !delegated {
			why = "a path on which the node is Walkable does not delegate to its Walk(f)"
			return
		}
		switch {
		case untested != nil:
			// handing the walk's own result back is the same as testing it, if nothing else follows
			if p.resolve(r.Results[0]) != ssa.Value(untested) || w.lastWalk(p) != untested {
				why = "the result of the walk at " + c.P.InstrPos(untested) + " is ignored"
			}
		case abortAt >= 0:
			if w.callsAfter(p, abortAt) {
				why = "goes on walking after a walk below returned true"
			} else if !known || !val {
				why = "does not return true when a walk below returned true"
			}
		default:
			switch {
			case node == nil && !exhausted, node != nil && isNonTerminal && !isWalkable && !exhausted:
				why = "returns at " + c.P.InstrPos(r) + " before all children were walked"
			case !known || val:
				why = "does not return false after everything below was walked without abort"
			}
		}
	})
	if !ok {
		return "too many paths"
	}
	return why
}

func (w *walkCalls) lastWalk(p *pathState) *ssa.Call {
	var last *ssa.Call
	for _, n := range p.notes {
		if cl, ok := isWalkNote(n); ok && (w.isWalk(cl) || w.fcall[cl]) {
			last = cl
		}
	}
	return last
}

// scan: index in p.notes of the first abort (a walk whose result was tested and came out true), whether a children
// loop was exhausted (or a helper returned false), and a walk call whose result is never tested on this path.
func (w *walkCalls) scan(p *pathState) (abortAt int, exhausted bool, untested *ssa.Call) {
	abortAt = -1
	pending := map[*ssa.Call]int{}
	for i, n := range p.notes {
		if cl, ok := isWalkNote(n); ok && w.isWalk(cl) {
			pending[cl] = i
		}
		if n.ev == nil {
			continue
		}
		if cl, ok := n.ev.cond.(*ssa.Call); ok && w.isWalk(cl) {
			delete(pending, cl)
			if n.ev.truth && abortAt < 0 {
				abortAt = i
			}
			if !n.ev.truth && w.helper[cl] {
				exhausted = true
			}
		}
		for _, l := range w.loops {
			if n.ev.at == l.test.Block() && n.ev.cond == l.cond && n.ev.truth == l.exhaustedOn {
				exhausted = true
			}
		}
	}
	best := -1
	for cl, i := range pending {
		if i > best {
			best, untested = i, cl
		}
	}
	return
}

func (w *walkCalls) callsAfter(p *pathState, idx int) bool {
	for _, n := range p.notes[idx+1:] {
		if cl, ok := isWalkNote(n); ok && (w.isWalk(cl) || w.fcall[cl]) {
			return true
		}
	}
	return false
}

func (c *Ctx) walkByPaths(rule string, fn *ssa.Function) {
	node, f := ssa.Value(fn.Params[0]), ssa.Value(fn.Params[1])
	v := func(key, pos, msg string) { c.R.Violation(rule, "parsley.Walk "+key, "parsley.Walk", pos, msg) }
	w := c.classifyWalkCalls(fn, fn, node, f, childrenOf(node), 0, false)
	for i, b := range w.bad {
		v("call", c.P.InstrPos(w.badAt[i]), b)
	}
	if len(w.bad) > 0 {
		return
	}
	if len(w.fcall) == 0 {
		v("callback count", c.P.Pos(fn.Pos()), "the callback is never invoked on the node")
		return
	}
	if len(w.rec)+len(w.helper) == 0 {
		v("no recursion", c.P.Pos(fn.Pos()), "no recursive Walk(child, f) over the children of a NonTerminalNode found: descendants are not visited (calling f(child) instead visits one level only)")
		return
	}
	if len(w.deleg) == 0 && len(w.coversNode) == 0 {
		v("no delegation", c.P.Pos(fn.Pos()), "no delegation to Walkable.Walk found")
		return
	}
	seen := map[string]bool{}
	report := func(key, pos, msg string) {
		if !seen[key+pos] {
			seen[key+pos] = true
			v(key, pos, msg)
		}
	}
	npaths := 0
	ok := walkPaths(fn, w.want, func(p *pathState, in ssa.Instruction) {
		r, isR := in.(*ssa.Return)
		if !isR {
			return
		}
		npaths++
		pos := c.P.InstrPos(r)
		abortAt, exhausted, untested := w.scan(p)
		if untested != nil && p.resolve(r.Results[0]) == ssa.Value(untested) {
			report("callback skipped", c.P.InstrPos(untested), "Walk returns the result of this walk directly: when it is false (no abort) the callback never runs on the node itself, so the node is not visited")
			return
		}
		if untested != nil {
			report("ignored abort", c.P.InstrPos(untested), "the result of this walk is not tested: a callback asking to stop inside the subtree does not stop the traversal")
			return
		}
		isWalkable, isNonTerminal := assertionsOn(p, node)
		var fcalls, walks []*ssa.Call
		lastWalk, firstF := -1, -1
		for i, n := range p.notes {
			cl, ok := isWalkNote(n)
			if !ok {
				continue
			}
			if w.fcall[cl] {
				fcalls = append(fcalls, cl)
				if firstF < 0 {
					firstF = i
				}
			} else {
				walks = append(walks, cl)
				lastWalk = i
			}
		}
		delegated, covered := false, false
		for _, cl := range walks {
			if w.deleg[cl] {
				delegated = true
			}
			if w.coversNode[cl] {
				covered = true
			}
		}
		if isWalkable && !delegated && !covered {
			report("walkable delegation", pos, "a path on which the node is Walkable does not delegate to node.(Walkable).Walk(f)")
		}
		if abortAt >= 0 {
			if w.callsAfter(p, abortAt) {
				report("abort", pos, "a child's walk returning true does not make the walk return true immediately: it goes on after the callback asked to stop")
			}
			if val, known := boolOnPath(p, r.Results[0]); !known || !val {
				report("result", pos, "Walk returns something else than true after a walk below it was aborted")
			}
			return
		}
		if isNonTerminal && !isWalkable && !exhausted && !covered {
			report("no recursion", pos, "a path on which the node is a NonTerminalNode reaches the callback without Walk(child, f) over all of its children: descendants are not visited")
		}
		if !isWalkable && !isNonTerminal && !covered && len(w.coversNode) > 0 {
			report("no recursion", pos, "a path reaches the callback without walking below the node")
		}
		if len(fcalls) != 1 {
			report("callback count", pos, fmt.Sprintf("the callback is invoked %d times on a path without abort; exactly one f(node) is expected (each node visited exactly once)", len(fcalls)))
			return
		}
		if lastWalk > firstF {
			report("order", pos, "a child is walked after the callback ran on the node: not post-order")
		}
		rv := p.resolve(r.Results[0])
		if rv != ssa.Value(fcalls[0]) {
			// a constant equal to what the callback returned on this path is the same thing
			val, known := boolOnPath(p, r.Results[0])
			fval, fknown := p.bools[fcalls[0]]
			if !(known && fknown && val == fval) {
				report("result", pos, "Walk returns something else than true (abort) or the callback's own result")
			}
		}
	})
	if !ok {
		c.R.Undecided(rule, "parsley.Walk paths", "parsley.Walk", c.P.Pos(fn.Pos()), "path budget exhausted")
		return
	}
	if len(seen) == 0 {
		c.R.Hold(rule, "parsley.Walk paths", fmt.Sprintf("%d paths: abort returns true at once; otherwise f(node) once, last, and its result returned", npaths))
		for cl := range w.fcall {
			c.R.Hold(rule, "parsley.Walk f(node) @"+c.P.InstrPos(cl), "on the own node")
		}
		for cl := range w.rec {
			c.R.Hold(rule, "parsley.Walk -> Walk(child, f) @"+c.P.InstrPos(cl), "ranges over all of Children(), aborts on true")
		}
		for cl := range w.helper {
			c.R.Hold(rule, "parsley.Walk -> helper @"+c.P.InstrPos(cl), "a helper walks below the node and aborts on true")
			c.R.Hold(rule, "parsley.Walk -> helper (delegation/children) @"+c.P.InstrPos(cl), "verified in the helper")
		}
		for cl := range w.deleg {
			c.R.Hold(rule, "parsley.Walk -> n.Walk(f) @"+c.P.InstrPos(cl), "Walkable delegation, aborts on true")
		}
	}
}
