package rules

import (
	"fmt"
	"go/types"
	"sort"

	"golang.org/x/tools/go/ssa"

	"pv/internal/report"
	"pv/internal/ssax"
)

func init() {
	register(&Property{ID: "C04", Run: runC04, Meta: report.Meta{ID: "C04",
		Explanation: "DECIDED (for all grammars and inputs at once, by a path-sensitive nilness analysis of the API boundary and sibling agreement at the leaves): R04a on every path through parsley.Parse a return with a nil error returns a node known to be non-nil on that path (nodes coming out of a user Transform are covered by A-user), and a return with an error returns the nil node; R04b Evaluate calls EvaluateNode only behind parseErr == nil; R04c every leaf parser (the terminals, End, Empty) returns on every path exactly one of a non-nil node or a non-nil error; R04d End yields its node only behind Reader.IsEOF(pos) of its own position, and Sentence builds SeqOf(p, End()) selecting child 0; R04e no alternation/filter combinator of packages combinator and parser returns a node together with a stale error on any path (pure forwarders and Optional, tabled, excepted) — the wrappers above (Name/ReturnError, Single, RightTrim) treat a non-nil error as failure and would drop a full parse. R04f Optional keeps the empty match next to the wrapped parser's alternatives on every path (otherwise Sentence(a? a) rejects \"a\" although a full parse exists). NOT DECIDED: 'with a Sentence root it succeeds precisely when some parse consumes the entire input' (completeness, see C01).",
		Assumptions: commonAssumptions, TrustedBase: commonTrusted}})
}

func runC04(c *Ctx) {
	c.U0()
	c.ruleR04a("R04a boundary-postcondition")
	c.ruleR04b("R04b evaluate-behind-success")
	c.ruleR04c("R04c leaf-contract")
	c.ruleR04d("R04d end-means-end")
	c.ruleR04e("R04e no-node-with-stale-error")
	c.ruleR01g("R04f optional-keeps-the-empty-match") // 'succeeds precisely when some parse consumes the entire input'
}

func isReturn(in ssa.Instruction) bool { _, ok := in.(*ssa.Return); return ok }

// fromUserCall: v (resolved on the path) is a result of a call into code the library does not own
// (Transform / TransformNode): covered by A-user.
func fromUserCall(p *pathState, v ssa.Value, names ...string) bool {
	v = p.resolve(v)
	e, ok := v.(*ssa.Extract)
	if !ok {
		return false
	}
	cl, ok := e.Tuple.(*ssa.Call)
	if !ok {
		return false
	}
	n := ""
	if sc := cl.Call.StaticCallee(); sc != nil {
		n = sc.Name()
	} else if cl.Call.IsInvoke() {
		n = cl.Call.Method.Name()
	}
	for _, x := range names {
		if x == n {
			return true
		}
	}
	return false
}

func (c *Ctx) ruleR04a(rule string) {
	c.R.Rule(rule, "parsley.Parse: on every path, error nil => node non-nil, error non-nil => node nil", 3)
	fn := c.P.Func("parsley.Parse")
	if fn == nil {
		c.R.Fail("coverage-lost", rule, "parsley.Parse", "-", "-", "parsley.Parse not found")
		return
	}
	res := map[*ssa.Return]*r04verdict{}
	if !c.nodeXorErr(fn, nil, res, 0) {
		c.R.Undecided(rule, "parsley.Parse path budget", "parsley.Parse", c.P.Pos(fn.Pos()), "too many paths to enumerate")
	}
	var rets []*ssa.Return
	for r := range res {
		rets = append(rets, r)
	}
	sort.Slice(rets, func(i, j int) bool { return rets[i].Pos() < rets[j].Pos() })
	for _, r := range ssax.Returns(fn) {
		if res[r] == nil {
			c.R.Examined(1)
		}
	}
	for _, r := range rets {
		v := res[r]
		where := c.name(r.Parent())
		site := where + " return @" + c.P.InstrPos(r)
		switch {
		case v.delegated:
			c.R.Examined(1)
		case v.bad != "":
			c.R.Violation(rule, "parsley.Parse returns (node, nil) with node unchecked", where, c.P.InstrPos(r), v.bad)
		default:
			note := fmt.Sprintf("%d path(s): exactly one of node/error", v.n)
			if v.user > 0 {
				note += fmt.Sprintf("; %d path(s) return the result of the user's transformer (A-user)", v.user)
				c.R.Exempt("node returned by Transform in parsley.Parse", "produced by user-supplied transformers (A-user: a transformer returns a node or an error)")
			}
			c.R.Hold(rule, site, note)
		}
	}
}

type r04verdict struct {
	bad       string
	n         int
	user      int
	delegated bool // the return hands on the pair another library function returns (judged there)
}

// nodeXorErr enumerates the paths of fn — a function returning (node, error) — and judges every return: exactly one
// of the two is non-nil. A return handing on both results of a library helper is judged inside that helper, with
// what is known about the arguments.
func (c *Ctx) nodeXorErr(fn *ssa.Function, init map[ssa.Value]nilState, res map[*ssa.Return]*r04verdict, depth int) bool {
	return walkPathsInit(fn, init, isReturn, func(p *pathState, in ssa.Instruction) {
		r := in.(*ssa.Return)
		if len(r.Results) != 2 {
			return
		}
		v := res[r]
		if v == nil {
			v = &r04verdict{}
			res[r] = v
		}
		v.n++
		// return h(...)
		e0, ok0 := r.Results[0].(*ssa.Extract)
		e1, ok1 := r.Results[1].(*ssa.Extract)
		if ok0 && ok1 && e0.Tuple == e1.Tuple && e0.Index == 0 && e1.Index == 1 && depth < 3 {
			if cl, ok := e0.Tuple.(*ssa.Call); ok {
				if h := cl.Call.StaticCallee(); h != nil && !cl.Call.IsInvoke() && c.P.InLib(h) && len(h.Blocks) > 0 && h.Signature.Results().Len() == 2 {
					hinit := map[ssa.Value]nilState{}
					for i, prm := range h.Params {
						if i < len(cl.Call.Args) {
							if st := p.eval(cl.Call.Args[i]); st != nsUnknown {
								hinit[prm] = st
							}
						}
					}
					v.delegated = true
					c.nodeXorErr(h, hinit, res, depth+1)
					return
				}
			}
		}
		node, err := p.eval(r.Results[0]), p.eval(r.Results[1])
		switch {
		case err == nsNil:
			if node == nsNonNil {
				return
			}
			if fromUserCall(p, r.Results[0], "Transform", "TransformNode") {
				v.user++
				return
			}
			v.bad = fmt.Sprintf("a path reaches this return with a nil error while the node is %s: Parse can yield neither a node nor an error (Evaluate then dereferences the nil node)", node)
		case node == nsNil:
			if err == nsUnknown {
				// an error value of unknown nilness: must be guarded
				v.bad = "a path returns the nil node with an error that is not known to be non-nil"
			}
		case node == nsNonNil && err == nsNonNil:
			v.bad = "a path returns both a node and an error"
		default:
			v.bad = fmt.Sprintf("a path returns node=%s error=%s: neither 'node with nil error' nor 'nil node with error' is established", node, err)
		}
	})
}

func (c *Ctx) ruleR04b(rule string) {
	c.R.Rule(rule, "parsley.Evaluate calls EvaluateNode only on the parseErr == nil edge, with the node Parse returned", 1)
	fn := c.P.Func("parsley.Evaluate")
	if fn == nil {
		c.R.Fail("coverage-lost", rule, "parsley.Evaluate", "-", "-", "parsley.Evaluate not found")
		return
	}
	var parse *ssa.Call
	for _, call := range ssax.Calls(fn) {
		if cl, ok := call.(*ssa.Call); ok && cl.Call.StaticCallee() != nil && cl.Call.StaticCallee().Name() == "Parse" {
			parse = cl
		}
	}
	for _, call := range ssax.Calls(fn) {
		cl, ok := call.(*ssa.Call)
		if !ok || cl.Call.StaticCallee() == nil {
			continue
		}
		nodeArg := ssa.Value(nil)
		if cl.Call.StaticCallee().Name() == "EvaluateNode" {
			nodeArg = cl.Call.Args[1]
		} else if h := cl.Call.StaticCallee(); c.P.InLib(h) && len(h.Blocks) > 0 && !cl.Call.IsInvoke() {
			// a helper of Evaluate that evaluates the node it is handed
			for _, k := range ssax.Calls(h) {
				if kc, ok := k.(*ssa.Call); ok && kc.Call.StaticCallee() != nil && kc.Call.StaticCallee().Name() == "EvaluateNode" {
					for i, hp := range h.Params {
						if kc.Call.Args[1] == ssa.Value(hp) && i < len(cl.Call.Args) {
							nodeArg = cl.Call.Args[i]
						}
					}
				}
			}
		}
		if nodeArg == nil {
			continue
		}
		good := false
		if parse != nil {
			for _, cd := range ssax.DominatingConds(cl.Block()) {
				x, nilIfTrue, isNT := nilTest(cd.Val)
				if isNT && isExtractOf(x, parse, 1) && cd.Truth == nilIfTrue {
					good = true
				}
			}
			if !isExtractOf(nodeArg, parse, 0) {
				good = false
			}
		}
		if good {
			c.R.Hold(rule, "parsley.Evaluate -> EvaluateNode @"+c.P.InstrPos(cl), "dominated by parseErr == nil; evaluates Parse's node")
		} else {
			c.R.Violation(rule, "parsley.Evaluate evaluates without success guard", "parsley.Evaluate", c.P.InstrPos(cl), "EvaluateNode is not dominated by the edge on which Parse's error is nil (or evaluates another node): on a failed parse the nil node is dereferenced")
		}
	}
}

// leafParsers: parser-signature functions in parser scope that call no parser themselves.
func (c *Ctx) leafParsers() []*ssa.Function {
	var out []*ssa.Function
	for _, fn := range c.S.ParseRoots {
		if fn.Synthetic != "" || !c.S.Parser[fn] {
			continue
		}
		leaf := true
		for _, call := range ssax.Calls(fn) {
			if ssax.IsParseCall(call) {
				leaf = false
			}
			if sc := call.Common().StaticCallee(); sc != nil && c.P.InLib(sc) && !leafCallee(c, sc, map[*ssa.Function]bool{}) {
				leaf = false
			}
		}
		if leaf {
			out = append(out, fn)
		}
	}
	return out
}

func leafCallee(c *Ctx, fn *ssa.Function, seen map[*ssa.Function]bool) bool {
	if seen[fn] {
		return true
	}
	seen[fn] = true
	for _, call := range ssax.Calls(fn) {
		if ssax.IsParseCall(call) {
			return false
		}
		if sc := call.Common().StaticCallee(); sc != nil && c.P.InLib(sc) && !leafCallee(c, sc, seen) {
			return false
		}
	}
	return true
}

func (c *Ctx) ruleR04c(rule string) {
	c.R.Rule(rule, "every leaf parser returns, on every path, exactly one of a non-nil node and a non-nil error", 13)
	for _, fn := range c.leafParsers() {
		name := c.name(fn)
		bad := map[*ssa.Return]string{}
		cnt := map[*ssa.Return]int{}
		complete := walkPaths(fn, isReturn, func(p *pathState, in ssa.Instruction) {
			r := in.(*ssa.Return)
			if len(r.Results) != 3 {
				return
			}
			cnt[r]++
			for _, pr := range c.nodeErrPairs(p, r, 0, 2, 0) {
				node, err := pr[0], pr[1]
				switch {
				case node == nsNonNil && err == nsNil, node == nsNil && err == nsNonNil:
				case node == nsNil && err == nsNil:
					bad[r] = "returns neither a node nor an error"
				case node == nsNonNil && err == nsNonNil:
					bad[r] = "returns both a node and an error"
				default:
					bad[r] = fmt.Sprintf("returns node=%s error=%s: the leaf contract 'a node xor an error' is not established on some path", node, err)
				}
			}
		})
		if !complete {
			c.R.Undecided(rule, name+" path budget", name, c.P.Pos(fn.Pos()), "too many paths to enumerate")
		}
		for _, r := range ssax.Returns(fn) {
			if msg, isBad := bad[r]; isBad {
				c.R.Violation(rule, name+" leaf contract", name, c.P.InstrPos(r), "leaf parser "+msg+": combinators above it (Choice, sequence, ReturnError) rely on exactly one of the two")
			} else if cnt[r] > 0 {
				c.R.Hold(rule, name+" return @"+c.P.InstrPos(r), fmt.Sprintf("%d path(s): a node xor an error", cnt[r]))
			}
		}
	}
}

func (c *Ctx) ruleR04d(rule string) {
	c.R.Rule(rule, "End yields an EndNode only on the true edge of Reader.IsEOF(own pos); Sentence = SeqOf(p, End()) bound to Select(0)", 2)
	// End: the leaf whose node is of the EndNode type
	endT := c.lookupType("parser", "EndNode")
	n := 0
	for _, fn := range c.leafParsers() {
		P := ownParam(fn, "parsley", "Pos")
		for _, r := range ssax.Returns(fn) {
			if len(r.Results) != 3 || endT == nil {
				continue
			}
			mi, ok := r.Results[0].(*ssa.MakeInterface)
			if !ok || !types.Identical(mi.X.Type(), endT) {
				continue
			}
			n++
			good := false
			for _, cd := range ssax.DominatingConds(r.Block()) {
				if cl, ok := cd.Val.(*ssa.Call); ok && cd.Truth && cl.Call.IsInvoke() && cl.Call.Method.Name() == "IsEOF" && len(cl.Call.Args) == 1 && cl.Call.Args[0] == P {
					good = true
				}
			}
			// the node's position is the own position
			if cv, ok := mi.X.(*ssa.ChangeType); !ok || cv.X != P {
				if cv2, ok2 := mi.X.(*ssa.Convert); !ok2 || cv2.X != P {
					good = false
				}
			}
			if good {
				c.R.Hold(rule, c.name(fn)+" return @"+c.P.InstrPos(r), "EndNode(pos) only behind ctx.Reader().IsEOF(pos)")
			} else {
				c.R.Violation(rule, c.name(fn)+" EndNode without EOF test", c.name(fn), c.P.InstrPos(r), "the end-of-input node is produced without the true edge of Reader.IsEOF on the parser's own position: a Sentence can succeed without consuming the entire input")
			}
		}
	}
	if n == 0 {
		c.R.Fail("coverage-lost", rule, "End parser", "-", "-", "no leaf parser returning a parser.EndNode found")
	}
	// Sentence
	sf := c.P.Func("combinator.Sentence")
	if sf == nil {
		c.R.Fail("coverage-lost", rule, "combinator.Sentence", "-", "-", "combinator.Sentence not found")
		return
	}
	okSeq, okEnd, okSel := false, false, false
	var at ssa.Instruction
	for _, call := range ssax.Calls(sf) {
		cl, ok := call.(*ssa.Call)
		if !ok {
			continue
		}
		sc := cl.Call.StaticCallee()
		if sc == nil {
			continue
		}
		switch sc.Name() {
		case "SeqOf":
			okSeq = true
			at = cl
			// the varargs array: two elements, the last one the result of parser.End()
			if sl, ok := cl.Call.Args[0].(*ssa.Slice); ok {
				if al, ok := sl.X.(*ssa.Alloc); ok {
					if arr, ok := al.Type().Underlying().(*types.Pointer).Elem().Underlying().(*types.Array); ok && arr.Len() == 2 && al.Referrers() != nil {
						for _, r := range *al.Referrers() {
							ia, ok := r.(*ssa.IndexAddr)
							if !ok || ia.Referrers() == nil {
								continue
							}
							k, _ := ssax.ConstInt(ia.Index)
							for _, rr := range *ia.Referrers() {
								if st, ok := rr.(*ssa.Store); ok && k == 1 {
									if ec, ok := ssax.Strip(st.Val).(*ssa.Call); ok && ec.Call.StaticCallee() != nil && ec.Call.StaticCallee().Name() == "End" {
										okEnd = true
									}
								}
								if st, ok := rr.(*ssa.Store); ok && k == 0 {
									if ssax.Strip(st.Val) != ssa.Value(sf.Params[0]) {
										okSeq = false
									}
								}
							}
						}
					}
				}
			}
		case "Select":
			if k, isC := ssax.ConstInt(cl.Call.Args[0]); isC && k == 0 {
				okSel = true
			}
		}
	}
	if okSeq && okEnd && okSel {
		c.R.Hold(rule, "combinator.Sentence", "SeqOf(p, parser.End()) bound to interpreter.Select(0)")
	} else {
		pos := c.P.Pos(sf.Pos())
		if at != nil {
			pos = c.P.InstrPos(at)
		}
		c.R.Violation(rule, "combinator.Sentence shape", "combinator.Sentence", pos, fmt.Sprintf("Sentence is not SeqOf(p, End()) selecting child 0 (seq=%v end=%v select0=%v): it no longer means 'p followed by the end of input'", okSeq, okEnd, okSel))
	}
}

// ruleR04e: combinators must not return a node together with an error they accumulated.
func (c *Ctx) ruleR04e(rule string) {
	c.R.Rule(rule, "parser-signature functions of packages combinator and parser return, on every path, a nil error with a node or a nil node with an error, unless they forward a sub-parser's pair unchanged", 8)
	for _, fn := range c.S.ParseRoots {
		if fn.Synthetic != "" || !c.S.Parser[fn] || fn.Pkg == nil && fn.Parent() == nil {
			continue
		}
		pkg := ""
		if tp := pkgOfFn(fn); tp != nil {
			pkg = c.P.Rel(tp.Path())
		}
		if pkg != "combinator" && pkg != "parser" {
			continue
		}
		name := c.name(fn)
		hasParse := false
		for _, call := range ssax.Calls(fn) {
			if ssax.IsParseCall(call) {
				hasParse = true
			}
		}
		if !hasParse && len(c.memos()) >= 0 {
			// leaves are R04c's
			leaf := false
			for _, l := range c.leafParsers() {
				if l == fn {
					leaf = true
				}
			}
			if leaf {
				continue
			}
		}
		if c.builtBy("combinator.Optional")[fn] {
			c.R.Exempt(name, "Optional always adds the empty match and keeps the sub-parser's error for furthest-error reporting (documented: 'returns the parser's matches and an empty match'); sequence.parse consumes such pairs")
			continue
		}
		bad := map[*ssa.Return]string{}
		cnt := map[*ssa.Return]int{}
		complete := walkPaths(fn, isReturn, func(p *pathState, in ssa.Instruction) {
			r := in.(*ssa.Return)
			if len(r.Results) != 3 {
				return
			}
			cnt[r]++
			node, err := p.eval(r.Results[0]), p.eval(r.Results[2])
			if node == nsNil || err == nsNil {
				return
			}
			// forwarding: both operands come from one sub-parser call or one cache entry
			n0, e0 := p.resolve(r.Results[0]), p.resolve(r.Results[2])
			if ne, ok := n0.(*ssa.Extract); ok {
				if ee, ok := e0.(*ssa.Extract); ok && ne.Tuple == ee.Tuple {
					return
				}
				// the error is a replacement made under the guard that the same call's own error was non-nil
				for _, ee := range ssax.Extracts(ne.Tuple, 2) {
					if p.eval(ee) == nsNonNil {
						return
					}
					// ... or the result of a library helper that maps the call's own error to an error and a nil error
					// to nil (an extracted applyName(err, pos))
					if hc, ok := e0.(*ssa.Call); ok {
						if h := hc.Call.StaticCallee(); h != nil && !hc.Call.IsInvoke() && c.P.InLib(h) && len(h.Blocks) > 0 && h.Signature.Results().Len() == 1 {
							states := make([]nilState, len(hc.Call.Args))
							hit := false
							for i, a := range hc.Call.Args {
								if ssax.Strip(a) == ssa.Value(ee) {
									states[i] = nsNil
									hit = true
								}
							}
							if hit && helperNilness(h, states) == nsNil {
								return
							}
						}
					}
					// ... or under a condition computed from that error (possibly by a helper)
					if ei, isI := e0.(ssa.Instruction); isI && ei.Block() != nil {
						for _, cd := range ssax.DominatingConds(ei.Block()) {
							if mentions(cd.Val, ee, 0) {
								return
							}
						}
					}
				}
			}
			if b1, f1, ok1 := fieldLoad(n0); ok1 {
				if b2, f2, ok2 := fieldLoad(e0); ok2 && b1 == b2 && f1 != f2 {
					return
				}
			}
			bad[r] = fmt.Sprintf("on some path this return yields a node (%s) together with an error (%s) that is not the same sub-parser's: wrappers such as Name/ReturnError, Single and RightTrim treat any non-nil error as failure and drop the node, so a full parse is rejected", node, err)
		})
		if !complete {
			c.R.Undecided(rule, name+" path budget", name, c.P.Pos(fn.Pos()), "too many paths to enumerate")
		}
		for _, r := range ssax.Returns(fn) {
			if msg, isBad := bad[r]; isBad {
				c.R.Violation(rule, name+" node with stale error", name, c.P.InstrPos(r), msg)
			} else if cnt[r] > 0 {
				c.R.Hold(rule, name+" return @"+c.P.InstrPos(r), fmt.Sprintf("%d path(s)", cnt[r]))
			}
		}
	}
}

func pkgOfFn(fn *ssa.Function) *types.Package {
	for fn.Parent() != nil {
		fn = fn.Parent()
	}
	if fn.Pkg != nil {
		return fn.Pkg.Pkg
	}
	return nil
}

// mentions: target occurs among the operands of v (through calls' arguments, comparisons, conversions).
func mentions(v, target ssa.Value, depth int) bool {
	if v == target {
		return true
	}
	if depth > 6 {
		return false
	}
	in, ok := v.(ssa.Instruction)
	if !ok {
		return false
	}
	for _, op := range in.Operands(nil) {
		if *op != nil && mentions(*op, target, depth+1) {
			return true
		}
	}
	return false
}

// nodeErrPairs: the (node, error) nil-states a return can deliver on this path. When both results are handed on from
// one call of a library helper (return noMatch(pos, err)) the pairs are those of the helper's own returns, evaluated
// with what is known about the arguments.
func (c *Ctx) nodeErrPairs(p *pathState, r *ssa.Return, ni, ei int, depth int) [][2]nilState {
	e0, ok0 := r.Results[ni].(*ssa.Extract)
	e1, ok1 := r.Results[ei].(*ssa.Extract)
	if ok0 && ok1 && e0.Tuple == e1.Tuple && e0.Index == ni && e1.Index == ei && depth < 3 {
		if cl, ok := e0.Tuple.(*ssa.Call); ok {
			if h := cl.Call.StaticCallee(); h != nil && !cl.Call.IsInvoke() && c.P.InLib(h) && len(h.Blocks) > 0 && h.Signature.Results().Len() == len(r.Results) && !ssax.IsParserSig(h.Signature) {
				init := map[ssa.Value]nilState{}
				for i, prm := range h.Params {
					if i < len(cl.Call.Args) {
						if st := p.eval(cl.Call.Args[i]); st != nsUnknown {
							init[prm] = st
						}
					}
				}
				var out [][2]nilState
				ok := walkPathsInit(h, init, isReturn, func(q *pathState, in ssa.Instruction) {
					hr := in.(*ssa.Return)
					if len(hr.Results) != len(r.Results) {
						return
					}
					out = append(out, c.nodeErrPairs(q, hr, ni, ei, depth+1)...)
				})
				if ok && len(out) > 0 {
					return out
				}
			}
		}
	}
	return [][2]nilState{{p.eval(r.Results[ni]), p.eval(r.Results[ei])}}
}

// builtBy: the parser functions an exported constructor hands out: its parser-signature closures, and the methods
// behind method values it creates (a helper object replacing the closure).
func (c *Ctx) builtBy(ctor string) map[*ssa.Function]bool {
	out := map[*ssa.Function]bool{}
	f := c.P.Func(ctor)
	if f == nil {
		return out
	}
	for _, an := range f.AnonFuncs {
		if ssax.IsParserSig(an.Signature) {
			out[an] = true
		}
	}
	for _, b := range f.Blocks {
		for _, in := range b.Instrs {
			mc, ok := in.(*ssa.MakeClosure)
			if !ok {
				continue
			}
			g := mc.Fn.(*ssa.Function)
			if g.Synthetic == "" || !ssax.IsParserSig(g.Signature) {
				continue
			}
			for _, call := range ssax.Calls(g) {
				if sc := call.Common().StaticCallee(); sc != nil && c.P.InLib(sc) && sc.Signature.Recv() != nil {
					out[sc] = true
				}
			}
		}
	}
	return out
}
