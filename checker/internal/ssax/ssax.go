// Package ssax holds small helpers over go/ssa: signatures, dominance of edges,
// value tracing. Nothing here is specific to one property.
package ssax

import (
	"go/constant"
	"go/token"
	"go/types"
	"strings"

	"golang.org/x/tools/go/ssa"
)

// NamedIs reports whether t (after stripping pointers if ptrOK) is the named type pkgSuffix.name.
func NamedIs(t types.Type, pkgSuffix, name string) bool {
	n, ok := types.Unalias(t).(*types.Named)
	if !ok {
		return false
	}
	o := n.Obj()
	if o.Name() != name || o.Pkg() == nil {
		return false
	}
	return o.Pkg().Path() == pkgSuffix || strings.HasSuffix(o.Pkg().Path(), "/"+pkgSuffix)
}

// PtrNamedIs reports whether t is *pkgSuffix.name.
func PtrNamedIs(t types.Type, pkgSuffix, name string) bool {
	p, ok := types.Unalias(t).(*types.Pointer)
	return ok && NamedIs(p.Elem(), pkgSuffix, name)
}

// IsParserSig: (ctx *parsley.Context, leftRecCtx data.IntMap, pos parsley.Pos) (parsley.Node, data.IntSet, parsley.Error)
func IsParserSig(sig *types.Signature) bool {
	if sig == nil || sig.Params().Len() != 3 || sig.Results().Len() != 3 {
		return false
	}
	p, r := sig.Params(), sig.Results()
	return PtrNamedIs(p.At(0).Type(), "parsley", "Context") &&
		NamedIs(p.At(1).Type(), "data", "IntMap") &&
		NamedIs(p.At(2).Type(), "parsley", "Pos") &&
		NamedIs(r.At(0).Type(), "parsley", "Node") &&
		NamedIs(r.At(1).Type(), "data", "IntSet") &&
		NamedIs(r.At(2).Type(), "parsley", "Error")
}

// CallSig returns the signature of the called function (without receiver).
func CallSig(c ssa.CallInstruction) *types.Signature {
	cc := c.Common()
	if cc.IsInvoke() {
		return cc.Method.Type().(*types.Signature)
	}
	if s, ok := cc.Value.Type().Underlying().(*types.Signature); ok {
		return s
	}
	return nil
}

// IsParseCall reports whether the call has the parser signature (interface invoke, func value or static).
func IsParseCall(c ssa.CallInstruction) bool { return IsParserSig(CallSig(c)) }

// ParseArgs returns (ctx, leftRecCtx, pos) of a parse call.
func ParseArgs(c ssa.CallInstruction) (ctx, lrc, pos ssa.Value) {
	cc := c.Common()
	a := cc.Args
	if !cc.IsInvoke() {
		if sig, ok := cc.Value.Type().Underlying().(*types.Signature); ok && sig.Recv() == nil {
			if f, ok := cc.Value.(*ssa.Function); ok && f.Signature.Recv() != nil {
				a = a[1:]
			}
		}
	}
	if len(a) == 4 { // static method call: receiver first
		a = a[1:]
	}
	if len(a) != 3 {
		return nil, nil, nil
	}
	return a[0], a[1], a[2]
}

// Extracts returns the Extract instructions of tuple value v with the given index.
func Extracts(v ssa.Value, idx int) []*ssa.Extract {
	var out []*ssa.Extract
	if v.Referrers() == nil {
		return nil
	}
	for _, r := range *v.Referrers() {
		if e, ok := r.(*ssa.Extract); ok && e.Index == idx {
			out = append(out, e)
		}
	}
	return out
}

// Strip follows value-preserving wrappers: ChangeType, MakeInterface, ChangeInterface.
func Strip(v ssa.Value) ssa.Value {
	for {
		switch x := v.(type) {
		case *ssa.ChangeType:
			v = x.X
		case *ssa.MakeInterface:
			v = x.X
		case *ssa.ChangeInterface:
			v = x.X
		default:
			return v
		}
	}
}

// Leaves returns the non-phi sources of v (through Strip and Phi), deduplicated.
func Leaves(v ssa.Value) []ssa.Value {
	seen := map[ssa.Value]bool{}
	var out []ssa.Value
	var walk func(ssa.Value)
	walk = func(x ssa.Value) {
		x = Strip(x)
		if seen[x] {
			return
		}
		seen[x] = true
		if p, ok := x.(*ssa.Phi); ok {
			for _, e := range p.Edges {
				walk(e)
			}
			return
		}
		out = append(out, x)
	}
	walk(v)
	return out
}

// IsNilConst reports whether v is the nil constant.
func IsNilConst(v ssa.Value) bool {
	c, ok := v.(*ssa.Const)
	return ok && c.Value == nil
}

// ConstInt returns the integer value of a constant.
func ConstInt(v ssa.Value) (int64, bool) {
	c, ok := v.(*ssa.Const)
	if !ok || c.Value == nil || c.Value.Kind() != constant.Int {
		return 0, false
	}
	i, ok := constant.Int64Val(c.Value)
	return i, ok
}

// ConstBool returns the boolean value of a constant.
func ConstBool(v ssa.Value) (bool, bool) {
	c, ok := v.(*ssa.Const)
	if !ok || c.Value == nil || c.Value.Kind() != constant.Bool {
		return false, false
	}
	return constant.BoolVal(c.Value), true
}

// EdgeDominates reports whether every path from the entry to target passes through the edge from->to.
func EdgeDominates(from, to, target *ssa.BasicBlock) bool {
	if !to.Dominates(target) {
		return false
	}
	n := 0
	for _, p := range to.Preds {
		if p == from {
			n++
			continue
		}
		if !to.Dominates(p) { // another way into `to` that is not a back edge
			return false
		}
	}
	return n == 1
}

// Cond is a branch condition known at a block: Val evaluated to Truth.
type Cond struct {
	Val   ssa.Value
	Truth bool
	At    *ssa.BasicBlock // the block ending in the If
}

// DominatingConds lists the branch conditions whose edge dominates b. Boolean phis that go/ssa builds for
// `x && y` / `x || y` used as values are decomposed into their operands.
func DominatingConds(b *ssa.BasicBlock) []Cond {
	raw := rawDominatingConds(b)
	var out []Cond
	seen := map[ssa.Value]bool{}
	var expand func(c Cond, depth int)
	expand = func(c Cond, depth int) {
		// !x known to be t  ==  x known to be !t
		for {
			u, ok := c.Val.(*ssa.UnOp)
			if !ok || u.Op != token.NOT {
				break
			}
			c = Cond{u.X, !c.Truth, c.At}
		}
		out = append(out, c)
		ph, ok := c.Val.(*ssa.Phi)
		if !ok || depth > 6 || seen[ph] {
			return
		}
		seen[ph] = true
		// && : every edge but one is the constant false; || : every edge but one is the constant true
		var val ssa.Value
		var pred *ssa.BasicBlock
		nconst := 0
		kind := -1
		for i, e := range ph.Edges {
			if k, isC := ConstBool(e); isC {
				kk := 0
				if k {
					kk = 1
				}
				if kind == -1 {
					kind = kk
				} else if kind != kk {
					return
				}
				nconst++
				continue
			}
			if val != nil {
				return
			}
			val = e
			pred = ph.Block().Preds[i]
		}
		if val == nil || nconst == 0 {
			return
		}
		if (kind == 0 && c.Truth) || (kind == 1 && !c.Truth) {
			// all operands hold (&&) / all operands fail (||)
			expand(Cond{val, c.Truth, pred}, depth+1)
			for _, pc := range rawDominatingConds(pred) {
				expand(pc, depth+1)
			}
		}
	}
	for _, c := range raw {
		expand(c, 0)
	}
	return out
}

func rawDominatingConds(b *ssa.BasicBlock) []Cond {
	var out []Cond
	for _, a := range b.Parent().Blocks {
		if len(a.Instrs) == 0 {
			continue
		}
		ifi, ok := a.Instrs[len(a.Instrs)-1].(*ssa.If)
		if !ok || len(a.Succs) != 2 || a.Succs[0] == a.Succs[1] {
			continue
		}
		if EdgeDominates(a, a.Succs[0], b) {
			out = append(out, Cond{ifi.Cond, true, a})
		}
		if EdgeDominates(a, a.Succs[1], b) {
			out = append(out, Cond{ifi.Cond, false, a})
		}
	}
	return out
}

// Reaches reports whether block `to` is reachable from `from` (from == to counts only via a cycle unless same=true).
func Reaches(from, to *ssa.BasicBlock, same bool) bool {
	if same && from == to {
		return true
	}
	seen := map[*ssa.BasicBlock]bool{}
	stack := append([]*ssa.BasicBlock{}, from.Succs...)
	for len(stack) > 0 {
		b := stack[len(stack)-1]
		stack = stack[:len(stack)-1]
		if seen[b] {
			continue
		}
		seen[b] = true
		if b == to {
			return true
		}
		stack = append(stack, b.Succs...)
	}
	return false
}

// InstrIndex returns the index of in within its block, or -1.
func InstrIndex(in ssa.Instruction) int {
	for i, x := range in.Block().Instrs {
		if x == in {
			return i
		}
	}
	return -1
}

// Before reports whether instruction a executes before b on every path reaching b from a's block
// in the simple sense: same block and earlier, or a's block strictly dominates b's block.
func Before(a, b ssa.Instruction) bool {
	if a.Block() == b.Block() {
		return InstrIndex(a) < InstrIndex(b)
	}
	return a.Block().Dominates(b.Block())
}

// Returns lists the Return instructions of fn.
func Returns(fn *ssa.Function) []*ssa.Return {
	var out []*ssa.Return
	for _, b := range fn.Blocks {
		if len(b.Instrs) == 0 {
			continue
		}
		if r, ok := b.Instrs[len(b.Instrs)-1].(*ssa.Return); ok {
			out = append(out, r)
		}
	}
	return out
}

// Calls lists all call instructions of fn (Call, Defer, Go).
func Calls(fn *ssa.Function) []ssa.CallInstruction {
	var out []ssa.CallInstruction
	for _, b := range fn.Blocks {
		for _, in := range b.Instrs {
			if c, ok := in.(ssa.CallInstruction); ok {
				out = append(out, c)
			}
		}
	}
	return out
}

// StaticCalleeName returns "pkgpath.Name" / "(recv).Name" of a statically resolved callee or "".
func StaticCalleeName(c ssa.CallInstruction) string {
	if f := c.Common().StaticCallee(); f != nil {
		return f.String()
	}
	return ""
}

// CmpOp describes a comparison BinOp normalised so that X op Y.
func CmpOp(v ssa.Value) (op token.Token, x, y ssa.Value, ok bool) {
	b, isb := v.(*ssa.BinOp)
	if !isb {
		return 0, nil, nil, false
	}
	switch b.Op {
	case token.EQL, token.NEQ, token.LSS, token.LEQ, token.GTR, token.GEQ:
		return b.Op, b.X, b.Y, true
	}
	return 0, nil, nil, false
}

// Negate returns the comparison that holds when `op` is false.
func Negate(op token.Token) token.Token {
	switch op {
	case token.EQL:
		return token.NEQ
	case token.NEQ:
		return token.EQL
	case token.LSS:
		return token.GEQ
	case token.LEQ:
		return token.GTR
	case token.GTR:
		return token.LEQ
	case token.GEQ:
		return token.LSS
	}
	return op
}

// Swap returns the comparison with operands exchanged.
func Swap(op token.Token) token.Token {
	switch op {
	case token.LSS:
		return token.GTR
	case token.LEQ:
		return token.GEQ
	case token.GTR:
		return token.LSS
	case token.GEQ:
		return token.LEQ
	}
	return op
}

// HasRefs reports whether a value of type t can carry a reference to mutable memory.
func HasRefs(t types.Type) bool {
	return hasRefs(t, map[types.Type]bool{})
}

func hasRefs(t types.Type, seen map[types.Type]bool) bool {
	if seen[t] {
		return false
	}
	seen[t] = true
	switch u := t.Underlying().(type) {
	case *types.Pointer, *types.Slice, *types.Map, *types.Chan, *types.Signature, *types.Interface:
		return true
	case *types.Struct:
		for i := 0; i < u.NumFields(); i++ {
			if hasRefs(u.Field(i).Type(), seen) {
				return true
			}
		}
	case *types.Array:
		return hasRefs(u.Elem(), seen)
	case *types.Tuple:
		for i := 0; i < u.Len(); i++ {
			if hasRefs(u.At(i).Type(), seen) {
				return true
			}
		}
	}
	return false
}
