#!/bin/sh
# behaviour-preserving: rename private fields, helpers and locals
set -e
sed -i 's/\boffset\b/base/g' text/file.go text/reader.go
sed -i 's/\bsetLines\b/buildLineTable/g' text/file.go
sed -i 's/\bregexpCache\b/patterns/g; s/\bgetPattern\b/compiled/g' text/reader.go
sed -i 's/\bnewSepBy\b/makeSepBy/g' combinator/sep_by.go
sed -i 's/\bparseNext\b/step/g; s/\bseqDefaultResultHandler\b/defaultHandler/g; s/\bcurtailingParsers\b/cps/g; s/\bmergeCurtailingParsers\b/merge/g' combinator/seq.go
sed -i 's/\bunquoteString\b/unq/g' text/terminal/string.go
sed -i 's/\binsertValue\b/ins/g' data/intset.go
sed -i 's/\bparserIndex\b/idx/g; s/\bnextParserIndex\b/counter/g' combinator/memoize.go
sed -i 's/\bnlPos\b/firstNl/g; s/\bcur\b/c0/g' text/reader.go
sed -i 's/\bstaticCheckErr\b/firstErr/g' parsley/static_check.go
sed -i 's/\binterpreter\b/interp/g; s/\bchildren\b/kids/g' ast/nonterminal_node.go
gofmt -l . >/dev/null
