#!/usr/bin/env python3
"""Regenerates /verif/MANIFEST.json from the table below (kept here so that the file stays valid and consistent)."""
import json, os, subprocess
HERE = os.path.dirname(os.path.dirname(os.path.abspath(__file__)))

NOTE = ("Trusted base: go/types, go/ssa, the VTA/CHA call graph (x/tools v0.29.0) and the checker itself. "
        "Assumes A-user (code outside the library honours the documented contracts), A-alias (no unsafe/reflect; rule U0 checks it), "
        "and, where stated, A-domain (arguments within documented domains). Decides a structural necessary condition, for all inputs at once; "
        "it does not execute parsley code.")

CLAIMED = {
 "C16": dict(ref="§4 C16", technique="abstract interpretation of the typed AST of json.NewParser (value-shape inference through constructors, wrappers, recursive references and interpreters) + truth-table equivalence of SepBy's length predicate over its atomic comparisons + regular-language inclusion between pattern constants and the JSON number syntax (Thompson automata, product subset construction) + loop-dominance rule in the Array/Object interpreters",
   text="Static shape inference deciding that the example grammar and the interpreters indexing into it agree: every alternative of the root evaluates to a JSON value type, no Select is out of range, Object() only sees key-value sequences with string keys, no sequence without interpreter is evaluated, SepBy alternates by parity and accepts exactly empty/odd chains. A necessary condition of agreement with encoding/json without panics; value agreement itself is a differential property and is not decided."),
 "C08": dict(ref="§4 C08", technique="panic-site inventory with taint classification of the immediate guard (configuration vs input), sibling agreement on conversion-error handling, Readf callback contract discharged by the linear-facts engine, provenance rules for node spans and decoded values, bounds obligations for package text/terminal",
   text="Static rules deciding, for all byte sequences and offsets, that no literal parser can panic on input (every explicit panic is configuration-guarded; conversion errors are returned; Readf's contract is satisfied by its callback including the invalid-UTF-8 rule; all index/slice expressions are in bounds), that every terminal returns a node xor an error, that nodes start at the parser's position and end at a Reader-returned one and take their value from Go's conversion. That the value equals Go's conversion of the LONGEST literal of the documented syntax (regexp semantics) is not decided."),
 "C09": dict(ref="§4 C09", technique="bounds obligations discharged by an in-house linear-facts abstract domain: dominating guards + type invariant File.len=len(File.data) + one-step loop induction + library contracts, refuted by Fourier-Motzkin elimination; who-may-write rule for file content; linear-normal-form comparison for Remaining/IsEOF",
   text="Static bounds analysis deciding, for all contents, offsets and positions in the documented domain, that every index/slice expression of the text reader is in bounds, that returned positions are the original one on mismatch or lie within the file, that file content is write-once, that regexps are anchored as a whole and cached under their own key, and that Remaining/IsEOF are the byte-length linear forms. Agreement of WHAT each primitive matches with a byte-level specification is not decided."),
 "C10": dict(ref="§4 C10", technique="table agreement between the statement's mode table and SkipWhitespaces' return structure (dominating mode/run conditions, error variable, position kind), constant-set rule for the whitespace alphabet, sibling agreement over the SetReaderPos implementations, path-sensitive return analysis of LeftTrim, dominance rule in Parse",
   text="Static rules deciding, for all whitespace runs and mode assignments, that the code's mode table equals the statement's (which mode fails, with which error, at which position, under which run condition; exhaustive over the declared modes), that the skipped alphabet and the line-break subset are exactly those stated, that LeftTrim returns the sub-parser's own node called right after the run, that right-trimming moves only the end (per node, from its own end) and that whitespace errors win in Parse. Transparency of permitted whitespace as a relation between two parses is not decided."),
 "C06": dict(ref="§4 C06", technique="error-discipline rule (Engler-style) over all nested parser calls: forward value flow of the error result, guard-vocabulary check of the conditions under which it is kept, sink reachability (returned error / Context.SetError), loop-carried accumulator dependence; provenance rule for error positions",
   text="Static error-discipline rules deciding, for every grammar and input, that no combinator loses a failure (each nested call's error is kept under error/position conditions only, reaches a returned error or SetError, and accumulated errors are recorded on success) and that error positions are never fabricated by arithmetic. Decides a necessary condition of 'the reported position is the furthest failure'; equality with the maximum and the rendered line:column are not decided."),
 "C13": dict(ref="§4 C13", technique="structural SSA rules over the four tree passes: call-site inventory, argument identity, dominance of guards (guard vocabulary), loop-header dominance of returns, full-range index recognition; Walk decided by path enumeration with an ordered event log (abort/callback/recursion order on every path)",
   text="Static structural rules deciding, for every tree shape, that Walk is post-order/exactly-once/abort-immediately (recursion through Walk itself over all children, Walkable delegation), StaticCheck aborts with the first error and records schemas behind err == nil with no foreign guard, Transform delegates to the node's transformer or rebuilds every child in place before returning the node, and Value hands the interpreter the node itself. Foreign node types are assumed to honour Children()/Walk."),
 "C04": dict(ref="§4 C04", technique="path-sensitive nilness abstract interpretation ({nil, non-nil, unknown} over enumerated CFG paths with phi resolution and branch pruning) at the API boundary and in every leaf/filter combinator; dominance checks for End/Evaluate",
   text="Static nilness analysis deciding, for every grammar and input, that parsley.Parse returns exactly one of a non-nil node or a non-nil error on every path, that Evaluate only evaluates behind success, that every leaf parser returns a node xor an error, that End requires IsEOF and Sentence is SeqOf(p, End()), and that no alternation/filter combinator returns a node together with a stale error. Completeness ('succeeds precisely when some parse consumes the whole input') is not decided."),
 "C12": dict(ref="§4 C12", technique="type-level parametricity: translation-coefficient inference (linear constraints over all integer SSA values, fields, parameters and interface method slots; union-find + propagation)",
   text="Static inference of how every integer of the library moves with the file's base offset; consistency of the constraint system is a parametricity proof sketch that parsing is invariant under placement (same control flow and trees, positions shifted by the offset difference, line:column unchanged), for all inputs and placements. Also decides that no placement-dependent value leaks into text or is cached outside File/FileSet/results. Does not decide C11's line/column arithmetic."),
 "C01": dict(ref="§4 C01", technique="ownership dataflow on alternative lists + forward value flow of curtailing sets (field-based) + guard dominance on context resets + path enumeration of ResultCache.Get with comparison-site and loop-exhaustion events + finite-domain folding of the sequence length predicates",
   text="Static rules deciding four structural lemmas of the Frost-Hafiz-Callaghan argument, each a necessary condition of completeness, for every grammar and input: no aliasing in alternative lists, curtailing-set propagation through every combinator, context/merge-flag reset only after progress, and the cache reuse condition (stored context, faithful replay, direction and key range of the reuse test). Soundness/completeness of the returned trees as a whole is not decided."),
 "C03": dict(ref="§4 C03", technique="dominance/post-dominance pairing of lookup-run-save in memoizing parsers and of the map store inside ResultCache.Save, def-use of the cache key, who-may-construct scan for non-empty IntSets, effect scan for nondeterminism sources, map-range shape classification",
   text="Static rules deciding, for every grammar and input: the wrapped parser runs only on a cache miss and its result is always saved under the lookup's key; stored, replayed and returned values are the wrapped call's own results; keys are unique per Memoize call; without left recursion all contexts are empty so entries are always reusable; the stored context is pruned exactly; parse-time code has no source of nondeterminism; cache entries are immutable. Equality of memoized and plain result lists as a relation between two executions is not decided."),
 "C02": dict(ref="§4 C02", technique="guard dominance on SSA (edge-dominating branch conditions) + phi-edge tracing of the left-recursion context at every hand-on site; shape recognition of memoizing parsers",
   text="Static path rules deciding the three lemmas behind the re-entry bound for every grammar and input: curtailment test dominates the wrapped call (K<=1), the wrapped call gets the incoming context incremented at the parser's own index, and every other hand-on of a context passes the incoming one unless a dominating guard proves progress of the position handed on (never across a loop back edge). The bound itself follows by a hand-written argument; termination of user parsers and value-level behaviour of IntMap/Remaining are not decided."),
 "C07": dict(ref="§4 C07", technique="interprocedural ownership/freshness dataflow over SSA (access-path origins, mutator summaries, call-graph fixpoint) + use-walk for slice retention",
   text="Static ownership analysis: every write to node fields, node-list elements and cache entries in code reachable from any Parser.Parse targets storage allocated by the writing activation; result handlers do not retain the scratch slice; the cache stores exactly what it returns. Close to sufficient for 'a returned result is never modified afterwards' under A-user/A-alias, for all grammars/inputs/request orders. One genuine defect (RightTrim) is a recorded known finding."),
 "C14": dict(ref="§4 C14", technique="effect analysis on shared locations: package-level variables, captured variables of escaping closures, receivers of Parse methods (ownership engine + escape use-walk)",
   text="Static effect analysis: parse-time and construction-time library code writes no package-level variable (except single sync/atomic read-modify-write), no captured variable of a closure that outlives its constructor, and no receiver of a Parse method. Decides, for all interleavings, the fact that makes runs with their own Context/Reader race-free; no schedule is explored."),
 "C15": dict(ref="§4 C15", technique="ownership/freshness dataflow restricted to package data (write summaries of exported operations must be empty; results must not alias internal storage) + guard-vocabulary rule on map updates (membership only, never a stored value)",
   text="Static ownership analysis of package data: no exported IntSet/IntMap operation writes memory reachable from its receiver or arguments; no raw internal slice/map escapes; the shared empties are never written. Decides the 'never mutated in place' half for all operation histories; value correctness of the operations is not decided beyond one structural clause (map entries are copied whatever their value)."),
}

NA = {
 "C05": "Differential property over evaluated values (associativity, precedence, computed integers); its one structural clause (Evaluate routes interpreter errors through FileSet.ErrorWithPosition) is matched string-for-string by the existing unit tests, so a static rule adds nothing. See DESIGN.md §5.",
 "C11": "The property is a bijection between integers and (file, line, column) over run-time contents. Its structural clauses (the +1 gap between files in FileSet.AddFile, the unknown-iff-out-of-range guards of FileSet.Position and File.Position, the 1-based Line/Column forms, the two sort.Search predicates, the CRLF replacement count) could be decided as linear normal forms, but each is pinned by the existing unit tests: ten single-operator mutations of them were tried and every one fails the suite, so a static rule there decides nothing the tests leave open. What the tests do leave open — that the binary searches land on the right table entry for every content — needs reasoning about sorted array contents (proof/solver families). The one clause of this kind that tests do not pin, completeness of the line table, is decided under C06 (R06d). See DESIGN.md §5 and §10.11.",
 "C17": "Quantifies over call counts as a function of input length; no static argument in reach bounds them, and context pruning is not a demonstrable necessary condition of degree <= 4. Determinism clause is decided under C03 (R03e). See DESIGN.md §5.",
}
PENDING = "check not built yet in this round (planned, see DESIGN.md §9); not claimed until its command exists"
ALL = ["C%02d" % i for i in range(1, 18)]

checks = []
for pid in ALL:
    if pid in CLAIMED:
        c = CLAIMED[pid]
        checks.append({
            "property_id": pid,
            "quick_cmd": "./run.sh %s quick" % pid,
            "thorough_cmd": "./run.sh %s thorough" % pid,
            "evidence_file": "/verif/evidence/%s.json" % pid,
            "replay_cmd_template": "bin/pv explain {path}",
            "engine": "pv",
            "level_claimed": {"category": "other", "text": c["text"], "design_ref": c["ref"]},
            "level_note": NOTE,
            "technique": c["technique"],
        })
na = []
for pid in ALL:
    if pid in CLAIMED:
        continue
    na.append({"property_id": pid, "reason": NA.get(pid, PENDING)})

m = {
 "version": 1,
 "setup_cmd": "./setup.sh",
 "hooks": {
   "guard": "verif",
   "enable": "no hooks: the analyses read the unmodified build of /repo (go/packages over the working tree); the tag `verif` is reserved and guards nothing",
   "baseline_off_cmd": "cd /repo && GOFLAGS=-mod=mod GOPROXY=off GOSUMDB=off go test -vet=off -count=1 ./...",
   "source_commits": [],
   "add_only": True,
 },
 "engines": [
   {"name": "pv", "path": "/verif/checker", "serves_properties": sorted(CLAIMED), "kind_free_text": "repository-specific static analyser on go/packages + go/ssa + VTA call graph: ownership/freshness dataflow, guard dominance, value flow, linear facts, translation-coefficient inference"},
 ],
 "checks": checks,
 "not_applicable": na,
 "notes": "Static analysis only: no registered command runs parsley code. Known findings: /verif/known_findings.json. fix: commits in /repo are listed there as status=fixed.",
}
json.dump(m, open(os.path.join(HERE, "MANIFEST.json"), "w"), indent=1)
print("claimed:", sorted(CLAIMED), "n/a:", [x["property_id"] for x in na])
