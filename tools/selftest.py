#!/usr/bin/env python3
"""selftest.py [-q] <ID>... : checker sensitivity. For every mutant of /verif/mutants/<ID>.json: copy /repo's HEAD to a scratch
worktree under /var/tmp, apply the textual replacement (must match exactly once, else the mutant is STALE), require `go build ./...`,
run the property's quick check against the copy and require a VIOLATION whose text contains `expect`. Prints one line per mutant;
exit status 0 always (mutant results are about the checker, not about /repo); SELFTEST-MISS lines flag checker bugs."""
import sys, os, json, subprocess, tempfile, shutil, concurrent.futures
V = "/verif"
ENV = dict(os.environ, GOFLAGS="-mod=mod", GOPROXY="off", GOSUMDB="off", GOTOOLCHAIN="local", GOWORK="off")
def run_one(pid, m):
    d = tempfile.mkdtemp(prefix="pvmut.", dir="/var/tmp")
    r = os.path.join(d, "repo"); vv = os.path.join(d, "verif")
    try:
        subprocess.run(["git", "-C", "/repo", "worktree", "add", "--detach", "-q", r, "HEAD"], check=True, stdout=subprocess.DEVNULL, stderr=subprocess.DEVNULL)
        # the working tree of /repo may differ from HEAD: copy tracked files over
        subprocess.run("cd /repo && git ls-files -z | xargs -0 -I{} cp --parents {} %s/ 2>/dev/null" % r, shell=True)
        os.makedirs(vv); shutil.copy(V + "/known_findings.json", vv)
        path = os.path.join(r, m["file"])
        src = open(path).read()
        if src.count(m["old"]) != 1:
            return dict(id=m["id"], status="stale", note="pattern matches %d times" % src.count(m["old"]))
        open(path, "w").write(src.replace(m["old"], m["new"]))
        for f, imp in m.get("imports", {}).items():
            fp = os.path.join(r, f); t = open(fp).read()
            if '"%s"' % imp not in t:
                if "import (" in t:
                    t = t.replace("import (", 'import (\n\t"%s"' % imp, 1)
                elif "\nimport " in t:
                    t = t.replace("\nimport ", '\nimport "%s"\nimport ' % imp, 1)
                else:
                    import re as _re
                    t = _re.sub(r"(?m)^(package \w+)$", r'\1\n\nimport "%s"' % imp, t, count=1)
                open(fp, "w").write(t)
        for f, txt in m.get("append", {}).items():
            open(os.path.join(r, f), "a").write(txt)
        b = subprocess.run("go build ./...", cwd=r, env=ENV, shell=True, stdout=subprocess.PIPE, stderr=subprocess.STDOUT)
        if b.returncode != 0:
            return dict(id=m["id"], status="stale", note="does not compile: " + b.stdout.decode()[-200:])
        q = subprocess.run([V + "/bin/pv", "check", "-repo", r, "-verif", vv, pid], stdout=subprocess.PIPE, stderr=subprocess.STDOUT, env=ENV)
        out = q.stdout.decode(errors="replace")
        viol = [l for l in out.splitlines() if l.startswith("VIOLATION")]
        hit = [l for l in viol if m["expect"] in l]
        if hit:
            keys = []
            import glob
            for rp in sorted(glob.glob(os.path.join(vv, "out", "replay", "*.json"))):
                try:
                    keys.append(json.load(open(rp))["key"])
                except Exception:
                    pass
            return dict(id=m["id"], status="detected", rule=m["expect"], line=hit[0].split(" replay=")[1].split(" ", 1)[1][:220], keys=[k for k in keys if m["expect"] in k][:3])
        return dict(id=m["id"], status="MISSED", rule=m["expect"], other=[l[l.index("rule="):][:160] if "rule=" in l else l[:160].replace("VIOLATION ", "alarm ") for l in viol][:3])
    finally:
        subprocess.run(["git", "-C", "/repo", "worktree", "remove", "--force", r], stdout=subprocess.DEVNULL, stderr=subprocess.DEVNULL)
        shutil.rmtree(d, ignore_errors=True)
def run_patch(pid, patch, is_script=False):
    """apply a diff (or run a script) on a scratch worktree and run the property's quick check; returns the VIOLATION lines or None if stale"""
    d = tempfile.mkdtemp(prefix="pvst.", dir="/var/tmp")
    r = os.path.join(d, "repo"); vv = os.path.join(d, "verif")
    try:
        subprocess.run(["git", "-C", "/repo", "worktree", "add", "--detach", "-q", r, "HEAD"], check=True, stdout=subprocess.DEVNULL, stderr=subprocess.DEVNULL)
        os.makedirs(vv); shutil.copy(V + "/known_findings.json", vv)
        a = subprocess.run(["sh", patch] if is_script else ["git", "apply", patch], cwd=r, stdout=subprocess.DEVNULL, stderr=subprocess.DEVNULL)
        if a.returncode != 0:
            return None
        b = subprocess.run("go build ./...", cwd=r, env=ENV, shell=True, stdout=subprocess.DEVNULL, stderr=subprocess.DEVNULL)
        if b.returncode != 0:
            return None
        q = subprocess.run([V + "/bin/pv", "check", "-repo", r, "-verif", vv, pid], stdout=subprocess.PIPE, stderr=subprocess.STDOUT, env=ENV)
        return [l for l in q.stdout.decode(errors="replace").splitlines() if l.startswith("VIOLATION")]
    finally:
        subprocess.run(["git", "-C", "/repo", "worktree", "remove", "--force", r], stdout=subprocess.DEVNULL, stderr=subprocess.DEVNULL)
        shutil.rmtree(d, ignore_errors=True)

def seeds_and_controls(pid, quiet):
    """independent seeded changes recorded as detected by this property must still be detected; behaviour-preserving
    controls must stay silent"""
    import glob
    seeds = []
    for mp in sorted(glob.glob(V + "/seeded/*/meta.json")):
        m = json.load(open(mp))
        db = m.get("detected_by")
        if isinstance(db, dict) and pid in db:
            seeds.append(os.path.dirname(mp))
    controls = sorted(glob.glob(V + "/controls/*.diff")) + sorted(glob.glob(V + "/controls/*.sh"))
    with concurrent.futures.ThreadPoolExecutor(max_workers=6) as ex:
        sres = list(ex.map(lambda sd: (os.path.basename(sd), run_patch(pid, os.path.join(sd, "patch.diff"))), seeds))
        cres = list(ex.map(lambda cp: (os.path.basename(cp), run_patch(pid, cp, cp.endswith(".sh"))), controls))
    s_det = [n for n, v in sres if v]; s_stale = [n for n, v in sres if v is None]; s_miss = [n for n, v in sres if v == []]
    c_clean = [n for n, v in cres if v == []]; c_stale = [n for n, v in cres if v is None]; c_alarm = [(n, v[0][:200]) for n, v in cres if v]
    for n in s_miss:
        print("SELFTEST-MISS property=%s seed=%s (was detected when recorded)" % (pid, n))
    for n, l in c_alarm:
        # the alarm was raised on a scratch copy with the control applied, not on /repo: do not echo it as a VIOLATION line
        l = l[l.index("rule="):] if "rule=" in l else l.replace("VIOLATION ", "alarm ")
        print("SELFTEST-FALSE-ALARM%s property=%s control=%s %s" % (" (recorded limit, DESIGN 10.9)" if n == "RF8-2.diff" else "", pid, n, l))
    print("selftest: property=%s seeds=%d detected=%d stale=%d missed=%d ; controls=%d silent=%d stale=%d false_alarms=%d" % (
        pid, len(sres), len(s_det), len(s_stale), len(s_miss), len(cres), len(c_clean), len(c_stale), len(c_alarm)))
    return {"independent_seeds": {"applied": len(sres) - len(s_stale), "detected": len(s_det), "missed": s_miss, "stale": s_stale},
            "behaviour_preserving_controls": {"applied": len(cres) - len(c_stale), "silent": len(c_clean), "false_alarms": [n for n, _ in c_alarm], "stale": c_stale}}

def main():
    args = [a for a in sys.argv[1:] if not a.startswith("-")]
    quiet = "-q" in sys.argv
    for pid in args:
        fp = os.path.join(V, "mutants", pid + ".json")
        if not os.path.exists(fp):
            print("selftest: no mutants for", pid); continue
        muts = json.load(open(fp))
        with concurrent.futures.ThreadPoolExecutor(max_workers=4) as ex:
            res = list(ex.map(lambda m: run_one(pid, m), muts))
        det = sum(1 for r in res if r["status"] == "detected"); stale = sum(1 for r in res if r["status"] == "stale")
        for r in res:
            if r["status"] == "MISSED":
                print("SELFTEST-MISS property=%s mutant=%s expected=%s other=%s" % (pid, r["id"], r["rule"], r.get("other")))
            elif not quiet:
                print("selftest %s %s: %s %s" % (pid, r["id"], r["status"], r.get("line", r.get("note", ""))[:200]))
        print("selftest: property=%s mutants=%d detected=%d stale=%d missed=%d" % (pid, len(res), det, stale, len(res) - det - stale))
        extra = seeds_and_controls(pid, quiet) if "--full" in sys.argv else {}
        # record in the evidence file written by the check that ran just before
        ev = os.path.join(V, "evidence", pid + ".json")
        if os.path.exists(ev):
            e = json.load(open(ev))
            e["coverage"].update(extra)
            e["coverage"]["mutants"] = {"applied": len(res) - stale, "detected": det, "stale": stale, "missed": [r["id"] for r in res if r["status"] == "MISSED"],
                                        "results": [{k: v for k, v in r.items() if k != "other"} for r in res]}
            json.dump(e, open(ev, "w"), indent=1)
if __name__ == "__main__":
    main()
