#!/bin/sh
# with_patch.sh <diff> <command...> : run a command with PV_REPO pointing at a scratch worktree of /repo with the diff applied
d=$(mktemp -d /var/tmp/pvwp.XXXXXX); git -C /repo worktree add --detach -q $d/repo HEAD
( cd $d/repo && git apply "$1" ) || echo "patch does not apply"
shift
PV_REPO=$d/repo "$@"
git -C /repo worktree remove --force $d/repo; rm -rf $d
