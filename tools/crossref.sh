#!/bin/sh
# Cross-reference only (decides nothing): generic analysers over /repo's non-test code. Output: /verif/out/crossref.txt
export GOFLAGS=-mod=mod GOPROXY=off GOSUMDB=off GOTOOLCHAIN=local GOWORK=off
out=/verif/out/crossref.txt; mkdir -p /verif/out; : > $out
cd /repo || exit 0
for t in "go vet ./..." "staticcheck ./..." "errcheck ./..."; do
  echo "## $t" >> $out
  timeout 300 $t 2>&1 | grep -v '_test.go\|fakes/' | head -40 >> $out
done
wc -l < $out
