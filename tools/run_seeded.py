#!/usr/bin/env python3
"""run_seeded.py [seed-dir-names...] : apply each /verif/seeded/<name>/patch.diff to a scratch copy of /repo's HEAD, run every
claimed check (quick tier) against the copy, and report which properties raise a VIOLATION. Updates meta.json 'detected_by'.
Never touches /repo's working tree."""
import sys, os, subprocess, shutil, json, tempfile, glob
V = "/verif"
names = sys.argv[1:] or sorted(os.listdir(V + "/seeded"))
man = json.load(open(V + "/MANIFEST.json"))
props = [c["property_id"] for c in man["checks"]]
only = os.environ.get("PV_PROPS")
if only: props = only.split(",")
summary = {}
for name in names:
    sd = os.path.join(V, "seeded", name)
    if not os.path.exists(os.path.join(sd, "patch.diff")): continue
    d = tempfile.mkdtemp(prefix="pvrun.", dir="/var/tmp")
    r = os.path.join(d, "repo"); vv = os.path.join(d, "verif")
    try:
        subprocess.run(["git", "-C", "/repo", "worktree", "add", "--detach", "-q", r, "HEAD"], check=True)
        os.makedirs(vv)
        shutil.copy(V + "/known_findings.json", vv)
        a = subprocess.run(["git", "apply", os.path.join(sd, "patch.diff")], cwd=r)
        if a.returncode != 0:
            summary[name] = "STALE (patch does not apply)"; continue
        hits = {}
        for p in props:
            q = subprocess.run([V + "/bin/pv", "check", "-repo", r, "-verif", vv, p], stdout=subprocess.PIPE, stderr=subprocess.STDOUT)
            out = q.stdout.decode(errors="replace")
            v = [l for l in out.splitlines() if l.startswith("VIOLATION")]
            if v:
                hits[p] = [l.split(" replay=")[1].split(" ", 1)[1][:300] for l in v][:4]
        summary[name] = hits
        mp = os.path.join(sd, "meta.json")
        if os.path.exists(mp):
            m = json.load(open(mp)); m["detected_by"] = hits if hits else "NOT DETECTED by any claimed check"; m["checked_against"] = props
            json.dump(m, open(mp, "w"), indent=1)
    finally:
        subprocess.run(["git", "-C", "/repo", "worktree", "remove", "--force", r], stdout=subprocess.DEVNULL, stderr=subprocess.DEVNULL)
        shutil.rmtree(d, ignore_errors=True)
for n, h in summary.items():
    if isinstance(h, str): print(n, h); continue
    print(n, "->", "MISSED" if not h else "; ".join("%s[%s]" % (p, v[0][:160]) for p, v in h.items()))
