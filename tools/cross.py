#!/usr/bin/env python3
"""cross.py [-j N] [max_per_mutant [property]]: sensitivity under refactoring. For every mutant of /verif/mutants/*.json and every
behaviour-preserving control (/verif/controls/*.diff) that touches the mutant's file and still contains the mutant's
anchor text exactly once after it is applied: apply control + mutant to a scratch worktree of /repo's HEAD, run the
mutant's property check and require a VIOLATION (any rule of that property; `expect` is reported separately).
A miss means a generalisation made for the controls lost the bug. Works under /var/tmp; never touches /repo."""
import sys, os, json, subprocess, tempfile, shutil, glob, concurrent.futures, re, threading
V = "/verif"
ENV = dict(os.environ, GOFLAGS="-mod=mod", GOPROXY="off", GOSUMDB="off", GOTOOLCHAIN="local", GOWORK="off")
lock = threading.Lock()
def touched(diff):
    return set(re.findall(r"^\+\+\+ b/(\S+)", open(diff).read(), re.M))
def run(pid, m, ctl):
    d = tempfile.mkdtemp(prefix="pvx.", dir="/var/tmp")
    r = os.path.join(d, "repo"); vv = os.path.join(d, "verif")
    try:
        with lock:
            subprocess.run(["git", "-C", "/repo", "worktree", "add", "--detach", "-q", r, "HEAD"], check=True, stdout=subprocess.DEVNULL, stderr=subprocess.DEVNULL)
        os.makedirs(vv); shutil.copy(V + "/known_findings.json", vv)
        if subprocess.run(["git", "apply", ctl], cwd=r, stdout=subprocess.DEVNULL, stderr=subprocess.DEVNULL).returncode != 0:
            return None
        path = os.path.join(r, m["file"])
        src = open(path).read()
        if src.count(m["old"]) != 1 or m.get("imports") or m.get("append"):
            return None
        open(path, "w").write(src.replace(m["old"], m["new"]))
        if subprocess.run("go build ./...", cwd=r, env=ENV, shell=True, stdout=subprocess.DEVNULL, stderr=subprocess.DEVNULL).returncode != 0:
            return None
        q = subprocess.run([V + "/bin/pv", "check", "-repo", r, "-verif", vv, pid], stdout=subprocess.PIPE, stderr=subprocess.STDOUT, env=ENV)
        viol = [l for l in q.stdout.decode(errors="replace").splitlines() if l.startswith("VIOLATION")]
        exact = any(m["expect"] in l for l in viol)
        return dict(prop=pid, mutant=m["id"], control=os.path.basename(ctl), detected=bool(viol), by_expected_rule=exact,
                    first=(viol[0].split(" replay=")[1].split(" ", 1)[1][:160] if viol else ""))
    finally:
        with lock:
            subprocess.run(["git", "-C", "/repo", "worktree", "remove", "--force", r], stdout=subprocess.DEVNULL, stderr=subprocess.DEVNULL)
        shutil.rmtree(d, ignore_errors=True)
def main():
    args = sys.argv[1:]
    j = 8
    if args and args[0] == "-j":
        j = int(args[1]); args = args[2:]
    cap = int(args[0]) if args else 4
    only = args[1] if len(args) > 1 else None
    ctls = sorted(glob.glob(V + "/controls/*.diff"))
    tmap = {c: touched(c) for c in ctls}
    jobs = []
    for mf in sorted(glob.glob(V + "/mutants/*.json")):
        pid = os.path.basename(mf)[:-5]
        if only and pid != only:
            continue
        for m in json.load(open(mf)):
            cs = [c for c in ctls if m["file"] in tmap[c]]
            # spread over the rounds: take every k-th
            step = max(1, len(cs) // cap)
            for c in cs[::step][:cap]:
                jobs.append((pid, m, c))
    res = []
    with concurrent.futures.ThreadPoolExecutor(j) as ex:
        for r in ex.map(lambda a: run(*a), jobs):
            if r: res.append(r)
    miss = [r for r in res if not r["detected"]]
    other = [r for r in res if r["detected"] and not r["by_expected_rule"]]
    print("cross: combinations=%d detected=%d by_other_rule=%d missed=%d (skipped %d: anchor gone / does not build)" % (len(res), len(res) - len(miss), len(other), len(miss), len(jobs) - len(res)))
    for r in miss:
        print("CROSS-MISS %s %s on %s" % (r["prop"], r["mutant"], r["control"]))
    os.makedirs(V + "/out", exist_ok=True)
    json.dump(res, open(V + "/out/cross%s.json" % ("-" + only if only else ""), "w"), indent=1)
if __name__ == "__main__":
    main()
