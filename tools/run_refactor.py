#!/usr/bin/env python3
"""run_refactor.py <diff>... : negative control. Apply each behaviour-preserving diff to a scratch worktree of /repo's HEAD,
require the suite to stay green, run every claimed check (quick) and report any VIOLATION: each one is a FALSE ALARM to be fixed
in the checker."""
import sys, os, subprocess, shutil, json, tempfile
V = "/verif"
ENV = dict(os.environ, GOFLAGS="-mod=mod", GOPROXY="off", GOSUMDB="off", GOTOOLCHAIN="local", GOWORK="off")
props = [c["property_id"] for c in json.load(open(V + "/MANIFEST.json"))["checks"]]
for diff in sys.argv[1:]:
    d = tempfile.mkdtemp(prefix="pvrf.", dir="/var/tmp"); r = d + "/repo"; vv = d + "/verif"
    try:
        subprocess.run(["git", "-C", "/repo", "worktree", "add", "--detach", "-q", r, "HEAD"], check=True)
        os.makedirs(vv); shutil.copy(V + "/known_findings.json", vv)
        if diff.endswith(".sh"):
            a = subprocess.run(["sh", diff], cwd=r)
        else:
            a = subprocess.run(["git", "apply", diff], cwd=r)
        if a.returncode != 0:
            print(diff, "DOES NOT APPLY"); continue
        t = subprocess.run("go build ./... && go test -vet=off -count=1 ./...", cwd=r, env=ENV, shell=True, stdout=subprocess.PIPE, stderr=subprocess.STDOUT)
        if t.returncode != 0:
            print(diff, "SUITE FAILS (not a valid control):", t.stdout.decode()[-300:].replace("\n", " | ")); continue
        alarms = []
        for p in props:
            q = subprocess.run([V + "/bin/pv", "check", "-repo", r, "-verif", vv, p], stdout=subprocess.PIPE, stderr=subprocess.STDOUT, env=ENV)
            for l in q.stdout.decode(errors="replace").splitlines():
                if l.startswith("VIOLATION"):
                    alarms.append(p + ": " + l.split(" replay=")[1].split(" ", 1)[1][:260])
        print(os.path.basename(os.path.dirname(diff)) + "/" + os.path.basename(diff), "->", "clean" if not alarms else "FALSE ALARMS %d" % len(alarms))
        for a in alarms[:6]:
            print("    ", a)
    finally:
        subprocess.run(["git", "-C", "/repo", "worktree", "remove", "--force", r], stdout=subprocess.DEVNULL, stderr=subprocess.DEVNULL)
        shutil.rmtree(d, ignore_errors=True)
