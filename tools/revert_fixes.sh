#!/bin/bash
# Reverts every "fix:" commit of /repo in a scratch worktree (one at a time) and runs the checks that are recorded as
# having found the defect: each must report a VIOLATION again (a "fixed" entry of known_findings.json suppresses nothing).
export GOFLAGS=-mod=mod GOPROXY=off GOSUMDB=off GOTOOLCHAIN=local GOWORK=off
cd "$(dirname "$0")/.." || exit 2
python3 - <<'PY' | while read c props; do tools/revert_check.sh $c $props; done
import json, collections
m = collections.OrderedDict()
for e in json.load(open("known_findings.json")):
    if e.get("status") == "fixed":
        m.setdefault(e["commit"], [])
        if e["property"] not in m[e["commit"]]: m[e["commit"]].append(e["property"])
for c, ps in m.items(): print(c, " ".join(ps))
PY
