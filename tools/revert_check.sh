#!/bin/bash
# usage: revert_check.sh <commit> <props...>
c=$1; shift
d=$(mktemp -d /var/tmp/pvrev.XXXX)
git -C /repo worktree add -q --detach $d/repo HEAD
mkdir -p $d/verif; cp /verif/known_findings.json $d/verif/
(cd $d/repo && git revert --no-commit $c >/dev/null 2>&1 || echo "REVERT CONFLICT $c")
for p in "$@"; do
  out=$(/verif/bin/pv check -repo $d/repo -verif $d/verif $p 2>&1)
  n=$(echo "$out" | grep -c "^VIOLATION")
  echo "revert $c -> $p: VIOLATION lines=$n"
  for f in $d/verif/out/replay/*.json; do python3 -c "import json,sys; print('     key:', json.load(open('$f'))['key'][:150])" 2>/dev/null; done | head -4
  rm -rf $d/verif/out
done
git -C /repo worktree remove --force $d/repo; rm -rf $d
