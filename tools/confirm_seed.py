#!/usr/bin/env python3
"""confirm_seed.py <src_dir> <ID> <k> : confirm a seeded change (suite passes with it; demo fails with it, passes without)
and store it as /verif/seeded/<ID>-<k>/ {patch.diff, demo file, meta.json}. Works in scratch copies under /var/tmp."""
import sys, os, subprocess, shutil, json, re, tempfile
src, pid, k = sys.argv[1], sys.argv[2], sys.argv[3]
tag = sys.argv[4] if len(sys.argv) > 4 else ""
ENV = dict(os.environ, GOFLAGS="-mod=mod", GOPROXY="off", GOSUMDB="off", GOTOOLCHAIN="local", GOWORK="off")
diff = os.path.join(src, "change%s.diff" % k)
demo = os.path.join(src, "demo%s_test.go" % k)
md = os.path.join(src, "change%s.md" % k)
first = open(demo).readline()
m = re.search(r"place at:\s*(\S+)", first)
place = m.group(1)
race = "-race" in open(demo).read(400)
def sh(cmd, cwd, timeout=600):
    p = subprocess.run(cmd, cwd=cwd, env=ENV, shell=True, stdout=subprocess.PIPE, stderr=subprocess.STDOUT, timeout=timeout)
    return p.returncode, p.stdout.decode(errors="replace")
def scratch():
    d = tempfile.mkdtemp(prefix="pvseed.", dir="/var/tmp")
    r = os.path.join(d, "repo")
    subprocess.run(["git", "-C", "/repo", "worktree", "add", "--detach", "-q", r, "HEAD"], check=True)
    return d, r
def drop(d, r):
    subprocess.run(["git", "-C", "/repo", "worktree", "remove", "--force", r])
    shutil.rmtree(d, ignore_errors=True)
res = {"property": pid, "k": int(k), "place": place, "race": race}
d, r = scratch()
try:
    rc, out = sh("git apply %s" % diff, r)
    res["apply_rc"] = rc
    rc, out = sh("go build ./... && go test -vet=off -count=1 ./...", r)
    res["suite_with_change_rc"] = rc
    if rc != 0: res["suite_out"] = out[-1500:]
    os.makedirs(os.path.dirname(os.path.join(r, place)), exist_ok=True)
    shutil.copy(demo, os.path.join(r, place))
    pkg = "./" + os.path.dirname(place)
    flags = "-race " if race else ""
    name = os.path.basename(place)
    rc, out = sh("go test %s-vet=off -count=1 -timeout 120s %s" % (flags, pkg), r)
    res["demo_with_change_rc"] = rc
    res["demo_with_change_tail"] = out[-600:]
    sh("git checkout -- . ", r)
    rc, out = sh("go test %s-vet=off -count=1 -timeout 120s %s" % (flags, pkg), r)
    res["demo_without_change_rc"] = rc
    if rc != 0: res["demo_without_tail"] = out[-600:]
finally:
    drop(d, r)
ok = res.get("apply_rc") == 0 and res.get("suite_with_change_rc") == 0 and res.get("demo_with_change_rc") != 0 and res.get("demo_without_change_rc") == 0
res["confirmed"] = ok
print(json.dumps({k2: v for k2, v in res.items() if not k2.endswith("tail") and not k2.endswith("out")}))
if ok:
    dst = "/verif/seeded/%s-%s%s" % (pid, tag, k)
    os.makedirs(dst, exist_ok=True)
    shutil.copy(diff, os.path.join(dst, "patch.diff"))
    shutil.copy(demo, os.path.join(dst, os.path.basename(place)))
    meta = {"property": pid, "breaks": open(md).read() if os.path.exists(md) else "", "demo_place_at": place, "demo_needs_race_detector": race,
            "what_was_run": ["git apply patch.diff (scratch worktree of /repo HEAD)", "go build ./... && go test -vet=off -count=1 ./...  -> all ok WITH the change",
                             "go test %s-vet=off -count=1 %s with the demo -> FAIL with the change" % (flags, pkg), "same demo on the clean tree -> PASS"],
            "confirmed_by_main_session": True, "detected_by": "(filled in by tools/run_seeded.py)"}
    json.dump(meta, open(os.path.join(dst, "meta.json"), "w"), indent=1)
else:
    print(json.dumps(res, indent=1)[:3000])
